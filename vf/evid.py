"""Helpers that separate "the mechanism was located" from "the located mechanism is wrong".

A rule may report a VIOLATION only on positive evidence: the anchors were found in
the tree under analysis and the required relation between them is broken.  When
an anchor cannot be located (the code was restructured, a helper was extracted,
a loop became a comprehension, ...) the verdict is *inconclusive*.
"""
from __future__ import annotations

import ast

from . import astu, flow
from .model import Func

YES, NO, UNKNOWN = 'yes', 'no', 'unknown'


def expand(func, expr, depth=0, seen=None, containers=True):
  """All expressions `expr` can stand for after following plain names to their definitions (flow-insensitive).  With `containers`
  the right-hand side of an unpacking / the iterable of a loop is listed for its elements too (the element comes *from* it)."""
  seen = seen if seen is not None else set()
  out = [expr]
  if depth > 6 or expr is None:
    return out
  if isinstance(expr, ast.Name) and expr.id not in seen:
    seen.add(expr.id)
    for d in flow.defs(func, expr.id):
      v = d[0]
      if isinstance(v, ast.AST):
        out += expand(func, v, depth + 1, seen, containers)
      elif containers and isinstance(v, tuple) and len(v) > 1 and isinstance(v[1], ast.AST):
        out.append(v[1])
  return out


def raw_flow(func, expr, name, sanitizers=(), depth=0, seen=None):
  """True if the value of local/param `name` can reach `expr` without passing through a call of one of `sanitizers`."""
  seen = seen if seen is not None else set()
  if expr is None or depth > 8:
    return False
  if isinstance(expr, ast.Call) and (astu.call_name(expr) or '').split('.')[-1] in sanitizers:
    return False
  if isinstance(expr, ast.Name):
    if expr.id == name:
      # the parameter itself, unless it has been rebound to a sanitised value
      ds = [d for d in flow.defs(func, name) if not (isinstance(d[0], tuple) and d[0][0] == 'param')]
      if not ds:
        return True
      return any(raw_flow(func, d[0], name, sanitizers, depth + 1, seen | {name}) for d in ds if isinstance(d[0], ast.AST)) or name in astu.params(func) and not ds
    if expr.id in seen:
      return False
    ds = flow.defs(func, expr.id)
    return any(raw_flow(func, d[0], name, sanitizers, depth + 1, seen | {expr.id}) for d in ds if isinstance(d[0], ast.AST))
  return any(raw_flow(func, ch, name, sanitizers, depth + 1, seen) for ch in ast.iter_child_nodes(expr) if isinstance(ch, ast.expr))


def passed_value(repo, mod, scope, call, pname, pos=None):
  """(status, expr): the expression a call passes for parameter `pname` of its callee.

  status YES: expr is that argument; NO: the call certainly does not pass it (callee default applies);
  UNKNOWN: cannot tell (star-args, unresolved callee and no keyword)."""
  v = astu.kwarg(call, pname)
  if v is not None:
    return YES, v
  splat = splat_keywords(scope, call) if astu.has_star_kwargs(call) else None
  if splat is not None and not any(isinstance(a, ast.Starred) for a in call.args):
    # f(..., **opts) with `opts = dict(a=x, b=y)` bound once and only ever splatted: the keywords are known
    if pname in splat:
      return YES, splat[pname]
    call = _without_splat(call)
  if astu.has_star_kwargs(call) or any(isinstance(a, ast.Starred) for a in call.args):
    # a positional index before the first starred argument is still certain
    if pos is not None and pos < len(call.args) and not any(isinstance(a, ast.Starred) for a in call.args[:pos + 1]):
      return YES, call.args[pos]
    return UNKNOWN, None
  callee = repo.resolve_call(mod, call, scope) if repo is not None else None
  if isinstance(callee, Func):
    pp = astu.pos_params(callee.node)
    if pp and pp[0] in ('self', 'cls') and (isinstance(call.func, ast.Attribute) or callee.qual.endswith('__init__') or callee.qual.endswith('__new__')):
      pp = pp[1:]
    if pname in pp:
      i = pp.index(pname)
      if i < len(call.args):
        return YES, call.args[i]
      return NO, None
    if pname in astu.kwonly_params(callee.node):
      return NO, None
    if pos is not None and pos < len(pp):
      v = astu.kwarg(call, pp[pos])
      if v is not None:
        return YES, v
      if pos < len(call.args):
        return YES, call.args[pos]
      return NO, None
    return UNKNOWN, None
  if pos is not None:
    if pos < len(call.args):
      return YES, call.args[pos]
    return NO, None
  return UNKNOWN, None


def _without_splat(call):
  c = ast.Call(func=call.func, args=call.args, keywords=[k for k in call.keywords if k.arg is not None])
  ast.copy_location(c, call)
  par = astu.parent(call)
  if par is not None:
    c._vf_parent = par
  return c


def splat_keywords(scope, call):
  """{name: expr} for the `**x` arguments of a call when every x is a local bound exactly once to `dict(k=v, ...)` /
  `{'k': v, ...}` and used only in `**x` positions; None when any of them cannot be resolved."""
  node = getattr(scope, 'node', None)
  if node is None:
    return None
  out = {}
  for k in call.keywords:
    if k.arg is not None:
      continue
    if not isinstance(k.value, ast.Name):
      return None
    name = k.value.id
    ds = flow.defs(scope, name)
    if len(ds) != 1 or not isinstance(ds[0][0], ast.AST):
      return None
    d = ds[0][0]
    if isinstance(d, ast.Call) and astu.call_name(d) == 'dict' and not d.args and all(kw.arg is not None for kw in d.keywords):
      items = {kw.arg: kw.value for kw in d.keywords}
    elif isinstance(d, ast.Dict) and all(k_ is not None and astu.const_str(k_) is not None for k_ in d.keys):
      items = {astu.const_str(k_): v_ for k_, v_ in zip(d.keys, d.values)}
    else:
      return None
    # the mapping must not be modified between its creation and the call: every other mention is a `**name` splat
    for n in astu.body_walk(node):
      if isinstance(n, ast.Name) and n.id == name and isinstance(n.ctx, ast.Load):
        par = astu.parent(n)
        if not (isinstance(par, ast.keyword) and par.arg is None):
          return None
    out.update(items)
  return out


def forwarded(repo, mod, scope, call, name, callee_param=None, pos=None, func=None):
  """Does `call` pass the enclosing function's `name` unchanged as the callee's `callee_param`?"""
  st, v = passed_value(repo, mod, scope, call, callee_param or name, pos)
  if st == UNKNOWN:
    return UNKNOWN
  if st == NO:
    return NO
  if isinstance(v, ast.Name) and v.id == name:
    return YES
  if func is not None and isinstance(v, ast.Name):
    # an intermediate variable holding exactly the parameter
    ds = [d[0] for d in flow.defs(func, v.id) if isinstance(d[0], ast.AST)]
    if ds and all(isinstance(d, ast.Name) and d.id == name for d in ds):
      return YES
  return NO


def judge_forward(R, repo, f, call, names, key, what, alias=None, pos=None):
  """One instance per option: forwarded (held) / certainly not (violation) / cannot tell (inconclusive)."""
  alias = alias or {}
  pos = pos or {}
  for n in names:
    res = forwarded(repo, f.mod, f, call, n, alias.get(n), pos.get(n), f)
    k = '%s :: %s' % (key, n)
    if res == YES:
      R.ok(k, (f, call))
    elif res == NO:
      R.fail(k, (f, call), '%s: `%s` is not passed on unchanged as `%s` in `%s`' % (what, n, alias.get(n, n), astu.short(call, 100)))
    else:
      R.unsure(k, (f, call), '%s: cannot tell whether `%s` is forwarded in `%s`' % (what, n, astu.short(call, 100)))


def guard_tests(c, node, label='T'):
  """CFG `if` nodes whose <label> edge guards `node`."""
  return [t for t in c.nodes if t.kind == 'if' and c.edge_guarded(node, t, label)]


def calls_deep(repo, f, pred, depth=2, seen=None):
  """Calls satisfying pred in f and (transitively, depth-limited) in the in-repo functions it calls."""
  seen = seen if seen is not None else set()
  out = []
  if f.fq in seen or depth < 0:
    return out
  seen.add(f.fq)
  for x in astu.func_calls(f):
    if pred(x):
      out.append((f, x))
    r = repo.resolve_call(f.mod, x, f)
    if isinstance(r, Func) and r.mod.rel == f.mod.rel:
      out += calls_deep(repo, r, pred, depth - 1, seen)
  return out


def raises_deep(repo, f, exc_name, depth=2, seen=None):
  """Raise statements of `exc_name` in f and in same-module helpers it calls."""
  seen = seen if seen is not None else set()
  out = []
  if f.fq in seen or depth < 0:
    return out
  seen.add(f.fq)
  for n in astu.body_walk(f.node):
    if isinstance(n, ast.Raise) and astu.raised_name(n) == exc_name:
      out.append((f, n))
  for x in astu.func_calls(f):
    r = repo.resolve_call(f.mod, x, f)
    if isinstance(r, Func) and r.mod.rel == f.mod.rel:
      out += raises_deep(repo, r, exc_name, depth - 1, seen)
  return out


RAW, CLEAN = 'raw', 'clean'


def _comb(vals):
  vals = list(vals)
  if RAW in vals:
    return RAW
  if UNKNOWN in vals:
    return UNKNOWN
  return CLEAN


def raw3(func, expr, name, sanitizers=(), depth=0, seen=None):
  """Three-valued value flow: can the object held by param/local `name` reach `expr` *unsanitised*?

  RAW: yes, through names / conditional expressions / containers / attribute-subscript views only (positive evidence);
  CLEAN: no - every flow passes one of `sanitizers` (or `name` does not occur); UNKNOWN: it passes through a call the
  analysis does not understand (a helper that may or may not copy)."""
  seen = seen if seen is not None else frozenset()
  if expr is None or depth > 10:
    return UNKNOWN if depth > 10 else CLEAN
  if isinstance(expr, tuple):
    # flow.defs special forms
    if expr[0] == 'param':
      return CLEAN
    if len(expr) > 1 and isinstance(expr[1], ast.AST):
      r = raw3(func, expr[1], name, sanitizers, depth + 1, seen)
      return r if r == CLEAN else (RAW if r == RAW and expr[0] in ('unpack', 'iter') else UNKNOWN)
    return UNKNOWN
  if isinstance(expr, ast.Constant):
    return CLEAN
  if isinstance(expr, ast.Call):
    tail = (astu.call_name(expr) or astu.call_tail(expr) or '').split('.')[-1]
    if tail in sanitizers:
      return CLEAN
    sub = _comb(raw3(func, a.value if isinstance(a, (ast.Starred, ast.keyword)) else a, name, sanitizers, depth + 1, seen) for a in list(expr.args) + list(expr.keywords))
    recv = raw3(func, expr.func.value, name, sanitizers, depth + 1, seen) if isinstance(expr.func, ast.Attribute) else CLEAN
    return CLEAN if sub == CLEAN and recv == CLEAN else UNKNOWN
  if isinstance(expr, ast.Name):
    if expr.id in seen:
      return CLEAN
    ds = flow.defs(func, expr.id)
    is_param = any(isinstance(d[0], tuple) and d[0][0] == 'param' for d in ds)
    rest = [d for d in ds if not (isinstance(d[0], tuple) and d[0][0] == 'param')]
    out = []
    if expr.id == name:
      if is_param or not rest or any(isinstance(d[0], tuple) for d in rest):
        out.append(RAW)
      rest = [d for d in rest if not isinstance(d[0], tuple)]
    out += [raw3(func, d[0], name, sanitizers, depth + 1, seen | {expr.id}) for d in rest]
    return _comb(out) if out else CLEAN
  if isinstance(expr, ast.Lambda):
    return CLEAN if name not in astu.names_loaded(expr) else UNKNOWN
  if isinstance(expr, (ast.ListComp, ast.SetComp, ast.DictComp, ast.GeneratorExp)):
    return CLEAN if name not in astu.names_loaded(expr) else UNKNOWN
  if isinstance(expr, ast.Compare):
    return CLEAN  # a bool
  kids = [ch for ch in ast.iter_child_nodes(expr) if isinstance(ch, ast.expr)]
  if isinstance(expr, ast.IfExp):
    kids = [expr.body, expr.orelse]
  if isinstance(expr, ast.Subscript):
    kids = [expr.value]
  return _comb(raw3(func, ch, name, sanitizers, depth + 1, seen) for ch in kids)


def _flag(test, func):
  """A local boolean flag `ok = <expr>` (defined exactly once, by a plain assignment) stands for its expression."""
  if func is not None and isinstance(test, ast.Name):
    ds = flow.defs(func, test.id)
    if len(ds) == 1 and isinstance(ds[0][0], ast.AST) and isinstance(ds[0][1], (ast.Assign, ast.AnnAssign)):
      return ds[0][0]
  return None


def establishes(test, branch, pred, func=None, depth=0):
  """Taking `branch` (True/False) of `test` implies that an expression satisfying pred is true."""
  if isinstance(test, ast.UnaryOp) and isinstance(test.op, ast.Not):
    return establishes(test.operand, not branch, pred, func, depth)
  if isinstance(test, ast.BoolOp):
    if isinstance(test.op, ast.And) and branch:
      return any(establishes(v, True, pred, func, depth) for v in test.values)
    if isinstance(test.op, ast.Or) and not branch:
      return any(establishes(v, False, pred, func, depth) for v in test.values)
    return False
  if branch and pred(test):
    return True
  d = _flag(test, func) if depth < 3 else None
  return establishes(d, branch, pred, func, depth + 1) if d is not None else False


def refutes(test, branch, pred, func=None, depth=0):
  """Taking `branch` of `test` implies that the pred-expression is FALSE."""
  if isinstance(test, ast.UnaryOp) and isinstance(test.op, ast.Not):
    return refutes(test.operand, not branch, pred, func, depth)
  if isinstance(test, ast.BoolOp):
    if isinstance(test.op, ast.And) and branch:
      return any(refutes(v, True, pred, func, depth) for v in test.values)
    if isinstance(test.op, ast.Or) and not branch:
      return any(refutes(v, False, pred, func, depth) for v in test.values)
    return False
  if (not branch) and pred(test):
    return True
  d = _flag(test, func) if depth < 3 else None
  return refutes(d, branch, pred, func, depth + 1) if d is not None else False


def mentions(test, pred, func=None, depth=0):
  for n in ast.walk(test):
    if isinstance(n, ast.expr) and pred(n):
      return True
    d = _flag(n, func) if depth < 3 else None
    if d is not None and mentions(d, pred, func, depth + 1):
      return True
  return False


def est_edges(c, pred, negative=False):
  """CFG edges whose traversal implies pred (or, negative=True, implies not pred); includes passing `assert pred`."""
  fn = refutes if negative else establishes
  out = []
  for n in c.nodes:
    if n.kind in ('if', 'while') and n.ast is not None:
      for m, lab in c.succ[n]:
        if lab in ('T', 'F') and fn(n.ast, lab == 'T', pred, c.func):
          out.append((n, m, lab))
    elif isinstance(n.stmt, ast.Assert) and n.kind == 'stmt':
      if fn(n.stmt.test, True, pred, c.func):
        out += [(n, m, lab) for m, lab in c.succ[n] if lab != 'raise']
  return out


def guarded(c, node, pred, negative=False):
  """'yes': every path entry->node establishes pred; 'bypass': pred is tested in this function but some path reaches
  node without establishing it; 'absent': no test/assert of pred in this function at all."""
  edges = est_edges(c, pred, negative)
  tested = edges or any(n.ast is not None and n.kind in ('if', 'while') and mentions(n.ast, pred, c.func) for n in c.nodes) or \
      any(isinstance(n.stmt, ast.Assert) and mentions(n.stmt.test, pred, c.func) for n in c.nodes)
  if not tested:
    return 'absent'
  if not edges:
    return 'bypass'
  r = c.reach([c.entry], avoid_edges=edges, include_src=True)
  return 'bypass' if node in r else 'yes'


def guard_witness(c, node, pred, negative=False):
  return c.witness(c.entry, node, avoid_edges=est_edges(c, pred, negative))


def call_named(*names):
  """Predicate for expressions that are calls whose dotted name or last component is one of names."""
  def p(e):
    if not isinstance(e, ast.Call):
      return False
    cn = astu.call_name(e) or ''
    return cn in names or cn.split('.')[-1] in names or (astu.call_tail(e) or '') in names
  return p


def find_calls(f, *names):
  p = call_named(*names)
  return [x for x in astu.func_calls(f) if p(x)]


def nodes_of(c, asts):
  return [n for a in asts for n in c.nodes_for(a)]


def judge_guard(R, c, nodes, pred, key, where, msg, absent_is_violation=True, negative=False, moved=None):
  """All `nodes` must be reached only through an edge establishing pred (negative=True: refuting it).

  held: every path establishes it; VIOLATION: the test exists in the function and a path bypasses it, or (absent_is_violation)
  the function does not test pred at all and `moved()` finds no trace of it in helpers; otherwise inconclusive."""
  g = [guarded(c, n, pred, negative) for n in nodes]
  if not nodes:
    R.unsure(key, where, 'guarded statements not found (%s)' % msg)
  elif all(x == 'yes' for x in g):
    R.ok(key, where)
  elif 'bypass' in g:
    n = nodes[g.index('bypass')]
    R.fail(key, where, '%s: `%s` is reached without the test on the path %s' % (msg, astu.short(n.stmt), guard_witness(c, n, pred, negative)))
  elif absent_is_violation and not (moved and moved()) and not _pred_in_helpers(c, pred, where):
    R.fail(key, where, '%s: the test is gone from the function' % msg)
  else:
    R.unsure(key, where, '%s: the test is not in this function' % msg)


def _pred_in_helpers(c, pred, where):
  """The predicate is evaluated by a same-module function this function calls (a guard moved into a helper)."""
  f = where[0] if isinstance(where, tuple) else where
  if not isinstance(f, Func):
    return False
  repo = f.mod.repo
  for x in ast.walk(c.func):
    if isinstance(x, ast.Call):
      r = repo.resolve_call(f.mod, x, f)
      if isinstance(r, Func) and r.mod.rel == f.mod.rel and r.node is not c.func:
        if any(pred(e) for e in ast.walk(r.node) if isinstance(e, ast.expr)):
          return True
  return False


class Unsupported(Exception):
  pass


def bool_eval(expr, env):
  """Evaluate a boolean expression over plain names bound in env (True/False); anything else raises Unsupported."""
  if isinstance(expr, ast.Constant) and isinstance(expr.value, bool):
    return expr.value
  if isinstance(expr, ast.Name) and expr.id in env:
    return env[expr.id]
  if isinstance(expr, ast.UnaryOp) and isinstance(expr.op, ast.Not):
    return not bool_eval(expr.operand, env)
  if isinstance(expr, ast.BoolOp):
    vs = []
    for v in expr.values:
      try:
        vs.append(bool_eval(v, env))
      except Unsupported:
        vs.append(None)
    if isinstance(expr.op, ast.And):
      if any(v is False for v in vs):
        return False
      if all(v is True for v in vs):
        return True
    else:
      if any(v is True for v in vs):
        return True
      if all(v is False for v in vs):
        return False
    raise Unsupported(astu.src(expr))
  s = astu.src(expr)
  if s in env:
    return env[s]
  raise Unsupported(s)


def path_condition(node, stop=None):
  """[(test, polarity)] of the `if` statements enclosing `node`, innermost first, up to (excluding) `stop` / the function."""
  out = []
  cur = node
  for anc in astu.ancestors(node):
    if anc is stop or isinstance(anc, (ast.FunctionDef, ast.AsyncFunctionDef, ast.Lambda)):
      break
    if isinstance(anc, ast.If):
      if any(cur is s for s in anc.body):
        out.append((anc.test, True))
      elif any(cur is s for s in anc.orelse):
        out.append((anc.test, False))
    cur = anc
  return out


def arg_text(func, expr):
  """Source texts the expression may stand for (names followed to their single definitions)."""
  return {astu.src(e) for e in expand(func, expr) if isinstance(e, ast.AST)}


def judge_args(R, repo, f, call, want, key, msg):
  """want: {callee param: (pos or None, set of accepted source texts)}."""
  for pname, (pos, texts) in want.items():
    st, v = passed_value(repo, f.mod, f, call, pname, pos)
    k = '%s :: %s' % (key, pname)
    if st == YES:
      alts = arg_text(f, v)
      R.check(bool(alts & set(texts)), k, (f, call), '%s: %s=`%s`' % (msg, pname, astu.short(v)), evidence=True)
    elif st == NO:
      R.fail(k, (f, call), '%s: `%s` is not passed' % (msg, pname))
    else:
      R.unsure(k, (f, call), 'cannot tell what is passed as `%s`' % pname)


# ---- located-anchor text comparison ---------------------------------------------------------------------------------
# A rule that expects a particular expression/statement locates its anchor structurally (assignment target, callee,
# return) and then compares.  Equal text: held.  Same syntactic skeleton with a leaf swapped for a *different existing*
# name (both the expected and the found name are still in use in the function), a different constant or a different
# operator: positive evidence of a changed relation.  Anything else (restructured code, renamed locals, extracted
# helpers): inconclusive.

def _vocab(f, expected):
  """Names whose exchange counts as positive evidence: identifiers of the expected texts themselves and the parameters of
  f and of its enclosing functions (stable API names).  A found name outside this set may be a renamed local."""
  out = set()
  for e in expected:
    try:
      t = ast.parse(e)
    except SyntaxError:
      continue
    for n in ast.walk(t):
      if isinstance(n, ast.Name):
        out.add(n.id)
      elif isinstance(n, ast.Attribute):
        out.add(n.attr)
  node = astu._n(f)
  for fn in [node] + [a for a in astu.ancestors(node)]:
    if isinstance(fn, (ast.FunctionDef, ast.AsyncFunctionDef)):
      out.update(astu.params(fn))
  return out


def pure_aliases(f):
  """{local: source text} for locals of f bound exactly once to a plain name / attribute chain (`model = self.model`)."""
  out = {}
  node = astu._n(f)
  if not isinstance(node, (ast.FunctionDef, ast.AsyncFunctionDef)):
    return out
  count = {}
  for n in astu.body_walk(node):
    if isinstance(n, ast.Name) and isinstance(n.ctx, (ast.Store, ast.Del)):
      count[n.id] = count.get(n.id, 0) + 1
  params = set(astu.params(node))
  pairs = []
  for n in astu.body_walk(node):
    if isinstance(n, ast.Assign) and len(n.targets) == 1:
      t, v = n.targets[0], n.value
      if isinstance(t, ast.Name):
        pairs.append((t, v))
      elif isinstance(t, ast.Tuple) and isinstance(v, ast.Tuple) and len(t.elts) == len(v.elts) and all(isinstance(x, ast.Name) for x in t.elts) and not any(isinstance(x, ast.Starred) for x in v.elts):
        pairs += list(zip(t.elts, v.elts))
  for t, v in pairs:
    if count.get(t.id) == 1 and t.id not in params:
      root = v
      while isinstance(root, ast.Attribute):
        root = root.value
      if isinstance(v, (ast.Name, ast.Attribute)) and isinstance(root, ast.Name) and count.get(root.id, 0) <= (0 if root.id in params else 1):
        out[t.id] = astu.src(v)
  return out


def delta(exp, act, scope_names, aliases=None):
  """'same' | 'swap' | 'other' between an expected and an actual AST."""
  if aliases and isinstance(act, ast.Name) and isinstance(exp, (ast.Name, ast.Attribute)) and aliases.get(act.id) == astu.src(exp):
    return 'same'
  if type(exp) is not type(act):
    # a value replaced by a literal constant / empty container is a point edit, not a restructuring
    # the resolved local / parameter `x` replaced by the raw attribute `self.x` (or the other way round)
    if isinstance(exp, ast.Name) and isinstance(act, ast.Attribute) and act.attr == exp.id and isinstance(act.value, ast.Name) and act.value.id == 'self' and exp.id in scope_names:
      return 'swap'
    if isinstance(act, ast.Name) and isinstance(exp, ast.Attribute) and exp.attr == act.id and isinstance(exp.value, ast.Name) and exp.value.id == 'self' and act.id in scope_names:
      return 'swap'
    if isinstance(exp, (ast.Name, ast.Attribute, ast.Call)) and (isinstance(act, ast.Constant) or (isinstance(act, (ast.Tuple, ast.List)) and not act.elts) or (isinstance(act, ast.Dict) and not act.keys)):
      return 'swap'
    return 'other'
  if isinstance(exp, ast.Name):
    if exp.id == act.id:
      return 'same'
    return 'swap' if (exp.id in scope_names and act.id in scope_names) else 'other'
  if isinstance(exp, ast.Constant):
    return 'same' if (exp.value == act.value and type(exp.value) is type(act.value)) else 'swap'
  res = 'same'
  for fld in exp._fields:
    a, b = getattr(exp, fld, None), getattr(act, fld, None)
    if fld in ('ctx', 'type_comment', 'kind', 'lineno'):
      continue
    if isinstance(a, list):
      if not isinstance(b, list) or len(a) != len(b):
        return 'other'
      for x, y in zip(a, b):
        d = delta(x, y, scope_names, aliases) if isinstance(x, ast.AST) else ('same' if x == y else 'other')
        if d == 'other':
          return 'other'
        if d == 'swap':
          res = 'swap'
    elif isinstance(a, ast.AST):
      if isinstance(a, (ast.operator, ast.unaryop, ast.cmpop, ast.boolop)):
        if type(a) is not type(b):
          res = 'swap'
        continue
      if not isinstance(b, ast.AST):
        return 'other'
      d = delta(a, b, scope_names, aliases)
      if d == 'other':
        return 'other'
      if d == 'swap':
        res = 'swap'
    else:
      if a != b:
        if fld == 'attr' and isinstance(a, str) and isinstance(b, str) and a in scope_names and b in scope_names:
          res = 'swap'
        else:
          return 'other'
  return res


def _parse_expr(src_text):
  return ast.parse(src_text, mode='eval').body


def judge_expr(R, f, node, expected, key, where, msg, follow=True, vocab=()):
  """`node` (located by the rule) must read as one of the `expected` source texts."""
  expected = [expected] if isinstance(expected, str) else list(expected)
  if node is None:
    R.unsure(key, where, 'expression not found (%s)' % msg)
    return False
  alts = [e for e in (expand(f, node) if follow else [node]) if isinstance(e, ast.AST)]
  # an element unpacked from / iterated over a container is not that container: only plain definitions count as evidence of a swap
  direct = [e for e in (expand(f, node, containers=False) if follow else [node]) if isinstance(e, ast.AST)]
  if any(astu.src(a) in expected for a in alts):
    R.ok(key, where)
    return True
  names = _vocab(f, expected) | set(vocab)
  al = pure_aliases(f)
  for e in expected:
    try:
      ex = _parse_expr(e)
    except SyntaxError:
      continue
    if al and any(delta(ex, a, names, al) == 'same' for a in alts):
      R.ok(key, where)
      return True
  for e in expected:
    try:
      ex = _parse_expr(e)
    except SyntaxError:
      continue
    for a in direct:
      if delta(ex, a, names, al) == 'swap':
        R.fail(key, where, '%s: found `%s`, expected `%s`' % (msg, astu.short(a, 100), e))
        return False
  R.unsure(key, where, '%s: `%s` is not recognised (expected `%s`)' % (msg, astu.short(node, 100), expected[0]))
  return False


def _anchor(st):
  if isinstance(st, (ast.Assign, ast.AnnAssign, ast.AugAssign)):
    t = st.targets[0] if isinstance(st, ast.Assign) else st.target
    return ('assign', astu.src(t))
  if isinstance(st, ast.Return):
    return ('return',)
  if isinstance(st, ast.Raise):
    return ('raise',)
  if isinstance(st, ast.Expr) and isinstance(st.value, ast.Call):
    return ('call', astu.call_name(st.value) or astu.call_tail(st.value))
  if isinstance(st, ast.Assert):
    return ('assert',)
  return None


def judge_stmts(R, f, expected, key, where, msg, vocab=()):
  """Every statement text in `expected` must occur in f (docstrings ignored).  Anchors: assignment target / return /
  raise / called name.  See the comment above for the three outcomes."""
  expected = [expected] if isinstance(expected, str) else list(expected)
  node = astu._n(f)
  stmts = [n for n in astu.body_walk(node) if isinstance(n, ast.stmt) and not isinstance(n, (ast.If, ast.For, ast.While, ast.With, ast.Try, ast.FunctionDef, ast.ClassDef))]
  names = _vocab(f, expected) | set(vocab)
  texts = {astu.src(s_) for s_ in stmts}
  al = pure_aliases(f)
  verdict, detail = 'ok', ''
  for e in expected:
    if e in texts:
      continue
    try:
      ex = ast.parse(e).body[0]
    except SyntaxError:
      verdict = 'unsure' if verdict != 'fail' else verdict
      continue
    cands = [s_ for s_ in stmts if _anchor(s_) is not None and _anchor(s_) == _anchor(ex)]
    ds = [(delta(ex, s_, names, al), s_) for s_ in cands]
    if any(d == 'same' for d, _ in ds):
      continue
    sw = [s_ for d, s_ in ds if d == 'swap']
    if sw:
      verdict, detail = 'fail', 'found `%s`, expected `%s`' % (astu.short(sw[0], 100), e)
    elif verdict != 'fail':
      verdict, detail = 'unsure', 'statement `%s` not found' % e
  if verdict == 'ok':
    R.ok(key, where)
  elif verdict == 'fail':
    R.fail(key, where, '%s: %s' % (msg, detail))
  else:
    R.unsure(key, where, '%s: %s' % (msg, detail))
  return verdict == 'ok'


def judge_call_args(R, repo, f, call, expected_pos, key, where, msg, forwarded_kw=(), vocab=()):
  """Positional arguments of a located call must read as expected_pos (texts); keywords in forwarded_kw must be passed on unchanged."""
  if call is None:
    R.unsure(key, where, 'call not found (%s)' % msg)
    return
  if any(isinstance(a, ast.Starred) for a in call.args[:len(expected_pos)]) or len(call.args) < len(expected_pos):
    R.unsure(key, where, '%s: positional arguments of `%s` not recognised' % (msg, astu.short(call, 100)))
  else:
    for i, e in enumerate(expected_pos):
      if e is not None:
        judge_expr(R, f, call.args[i], e, '%s :: arg %d' % (key, i), where, msg, vocab=set(vocab) | {n.id for x in expected_pos if x for n in ast.walk(ast.parse(x)) if isinstance(n, ast.Name)})
  if forwarded_kw:
    judge_forward(R, repo, f, call, list(forwarded_kw), key, msg)


def _residual(test, env):
  """Partial evaluation of a condition under env: True / False / list of undecided operand expressions (a conjunction
  or a disjunction of them, second component tells which)."""
  try:
    return bool_eval(test, env), None
  except Unsupported:
    pass
  if isinstance(test, ast.BoolOp):
    rest = []
    for v in test.values:
      r, _ = _residual(v, env)
      if r is True and isinstance(test.op, ast.And):
        continue
      if r is False and isinstance(test.op, ast.Or):
        continue
      if isinstance(r, bool):
        return r, None     # And with a False operand / Or with a True operand (already handled by bool_eval, kept for safety)
      rest += r
    return rest, type(test.op).__name__
  if isinstance(test, ast.UnaryOp) and isinstance(test.op, ast.Not):
    r, k = _residual(test.operand, env)
    if isinstance(r, bool):
      return (not r), None
    return r, k
  return [test], None


def env_edges(c, env, flags_func=None):
  """(cut, blocked): CFG edges contradicting the assumption `env`, and edges out of tests whose undecided part still
  talks about the assumed quantities (so neither branch can be claimed to be taken)."""
  cut, blocked = [], []
  env_names = set()
  for k in env:
    try:
      env_names |= {n.id for n in ast.walk(ast.parse(k)) if isinstance(n, ast.Name)} | {n.attr for n in ast.walk(ast.parse(k)) if isinstance(n, ast.Attribute)}
    except SyntaxError:
      pass
  env_names -= {'self'}
  for n in c.nodes:
    if n.kind in ('if', 'while') and n.ast is not None:
      r, _ = _residual(n.ast, env)
      if not isinstance(r, bool):
        # undecided on the names as written: try again with single-assignment flags replaced by their definitions
        r2, _ = _residual(_subst_flags(n.ast, flags_func or c.func), env)
        if isinstance(r2, bool) or not any(isinstance(x, ast.Name) and x.id in env for e_ in r for x in ast.walk(e_)):
          r = r2
      if isinstance(r, bool):
        cut += [(n, m, l) for m, l in c.succ[n] if l in ('T', 'F') and (l == 'T') != r]
        continue
      mentioned = set()
      for e in r:
        mentioned |= {x.id for x in ast.walk(e) if isinstance(x, ast.Name)} | {x.attr for x in ast.walk(e) if isinstance(x, ast.Attribute)}
      if mentioned & env_names:
        blocked += [(n, m, l) for m, l in c.succ[n] if l in ('T', 'F')]
  return cut, blocked


def reach_env(c, env, flags_func=None):
  """Reachability from entry under an assumption `env` ({source text or name: bool}) about the values tested.

  Returns (may, must): `may` = nodes reachable when only the edges contradicting env are removed; `must` = nodes reachable
  when, in addition, tests whose undecided part still talks about the assumed quantities are not crossed at all (tests about
  unrelated quantities are free: either branch can happen).  A node in `must` is reached in some execution that
  satisfies the assumption: positive evidence."""
  cut, blocked = env_edges(c, env, flags_func)
  may = c.reach([c.entry], avoid_edges=cut, include_src=True)
  must = c.reach([c.entry], avoid_edges=cut + blocked, include_src=True)
  return may, must


def bypass_under(c, env, target, through, flags_func=None):
  """Witness path entry -> target that satisfies `env`, crosses only tests that are decided by env or independent of it,
  and avoids every node of `through`; None if there is none."""
  cut, blocked = env_edges(c, env, flags_func)
  if target in c.reach([c.entry], avoid=through, avoid_edges=cut + blocked, include_src=True):
    return c.witness(c.entry, target, avoid=through, avoid_edges=cut + blocked)
  return None


_SUBST_CACHE: dict = {}


def _subst_flags(test, func):
  """Replace single-assignment boolean flags by their defining expressions (one level); memoised per test node."""
  k = (id(test), id(astu._n(func)) if func is not None else 0)
  hit = _SUBST_CACHE.get(k)
  if hit is not None and hit[0] is test:
    return hit[1]
  out = _subst_flags_uncached(test, func)
  _SUBST_CACHE[k] = (test, out)
  return out


def _subst_flags_uncached(test, func):
  class T(ast.NodeTransformer):
    def visit_Name(self, node):
      d = _flag(node, func)
      return d if d is not None else node
  import copy
  return T().visit(copy.deepcopy(test))


def expr_guard(node, pred, negative=False, func=None):
  """Is `node` (an expression) evaluated only when pred holds, by virtue of an enclosing conditional expression /
  short-circuit operator inside its own statement?  True / False (no such guard)."""
  cur = node
  for anc in astu.ancestors(node):
    if isinstance(anc, ast.stmt):
      break
    if isinstance(anc, ast.IfExp):
      fn = refutes if negative else establishes
      if cur is anc.body and fn(anc.test, True, pred, func):
        return True
      if cur is anc.orelse and fn(anc.test, False, pred, func):
        return True
    if isinstance(anc, ast.BoolOp) and cur in anc.values:
      before = anc.values[:anc.values.index(cur)]
      fn = refutes if negative else establishes
      if isinstance(anc.op, ast.And) and any(fn(b, True, pred, func) for b in before):
        return True
      if isinstance(anc.op, ast.Or) and any(fn(b, False, pred, func) for b in before):
        return True
    cur = anc
  return False


def truthiness_operands(test):
  """Sub-expressions of a condition that are evaluated for their truth value."""
  if isinstance(test, ast.BoolOp):
    for v in test.values:
      yield from truthiness_operands(v)
  elif isinstance(test, ast.UnaryOp) and isinstance(test.op, ast.Not):
    yield from truthiness_operands(test.operand)
  else:
    yield test


def conditions(func_node):
  """(condition expression, node) for every if / while / conditional expression / assert / comprehension filter of a function."""
  for n in ast.walk(func_node):
    if isinstance(n, (ast.If, ast.While, ast.IfExp)):
      yield n.test, n
    elif isinstance(n, ast.Assert):
      yield n.test, n
    elif isinstance(n, ast.comprehension):
      for c in n.ifs:
        yield c, c
    elif isinstance(n, ast.BoolOp) and not isinstance(astu.parent(n), (ast.If, ast.While, ast.IfExp, ast.Assert, ast.BoolOp, ast.UnaryOp)):
      yield n, n   # `a and b` used as a value: operands before the last are tested for truth


def kind_pred(var, kind, how=('type_is', 'isinstance', 'eq')):
  """Predicate for atomic tests saying that `var` is of `kind`: `type(var) is K`, `isinstance(var, K | (.., K, ..))`, `var == K`."""
  def p(e):
    if 'type_is' in how and isinstance(e, ast.Compare) and len(e.ops) == 1 and isinstance(e.ops[0], (ast.Is, ast.Eq)) and astu.src(e.left) == 'type(%s)' % var and astu.src(e.comparators[0]).split('.')[-1] == kind:
      return True
    if 'isinstance' in how and isinstance(e, ast.Call) and astu.call_name(e) == 'isinstance' and len(e.args) == 2 and astu.src(e.args[0]) == var:
      t = e.args[1]
      ts = t.elts if isinstance(t, ast.Tuple) else [t]
      return any(astu.src(x).split('.')[-1] == kind or astu.src(x) == kind for x in ts)
    if 'eq' in how and isinstance(e, ast.Compare) and len(e.ops) == 1 and isinstance(e.ops[0], (ast.Eq, ast.Is)) and astu.src(e.left) == var and astu.src(e.comparators[0]).split('.')[-1] == kind:
      return True
    return False
  return p


def neg_kind_pred(var, kind):
  """`type(var) is not K` / `var != K`: refuting it establishes the kind."""
  def p(e):
    return isinstance(e, ast.Compare) and len(e.ops) == 1 and isinstance(e.ops[0], (ast.IsNot, ast.NotEq)) and astu.src(e.left) in ('type(%s)' % var, var) and astu.src(e.comparators[0]).split('.')[-1] == kind
  return p


def kind_edges(c, var, kind):
  """CFG edges on which `var` is known to be of `kind` (either polarity of the test)."""
  return est_edges(c, kind_pred(var, kind)) + est_edges(c, neg_kind_pred(var, kind), negative=True)


# ----------------------------------------------------------------------------------------------
# how deep does an expression copy its operand?

DEEP, SHALLOW, ALIAS = 'deep', 'shallow', 'alias'


def _identity_lambda(e):
  return isinstance(e, ast.Lambda) and len(astu.params(e)) == 1 and isinstance(e.body, ast.Name) and e.body.id == astu.params(e)[0]


def copy_depth(func, expr, depth=0):
  """(kind, source, witness): how `expr` relates to the container it is built from.

  DEEP    every nested container is rebuilt (tree_map(identity) / deepcopy / unfreeze / freeze / to_state_dict-like)
  SHALLOW a finite number of levels is rebuilt (dict(x), x.copy(), {**x}, {k: v for k, v in x.items()}, {k: dict(v) ...})
  ALIAS   the very object (a plain name / attribute / subscript / parameter / `.get_metadata()`-style accessor is *not* decided here)
  None    not recognised
  `source` is the operand expression, `witness` the sub-expression that decided."""
  if depth > 5 or expr is None:
    return None, None, None
  e = expr
  if isinstance(e, ast.Name):
    ds = [d[0] for d in flow.defs(func, e.id)]
    asts = [d for d in ds if isinstance(d, ast.AST)]
    if len(ds) == 1 and len(asts) == 1:
      return copy_depth(func, asts[0], depth + 1)
    if not ds or all(isinstance(d, tuple) and d and d[0] == 'param' for d in ds):
      return ALIAS, e, e
    # rebound several times (x = {}; x.update(..); x = tree_map(id, x)): judge the last plain definition textually
    if asts:
      last = max(asts, key=lambda a: (getattr(a, 'lineno', 0), getattr(a, 'col_offset', 0)))
      if not (isinstance(last, ast.Name) and last.id == e.id):
        k, s_, w = copy_depth(func, last, depth + 1)
        if k in (DEEP, SHALLOW):
          return k, s_, w
    return None, None, None
  if isinstance(e, (ast.Attribute, ast.Subscript)):
    return ALIAS, e, e
  if isinstance(e, ast.Call):
    tail = astu.call_tail(e) or ''
    name = astu.call_name(e) or ''
    if tail in ('tree_map', 'map') and ('tree' in name) and len(e.args) >= 2 and _identity_lambda(e.args[0]):
      return DEEP, e.args[1], e
    if tail == 'deepcopy' and e.args:
      return DEEP, e.args[0], e
    if tail in ('unfreeze', 'freeze') and e.args:
      return DEEP, e.args[0], e
    if name in ('dict', 'list', 'set', 'OrderedDict', 'collections.OrderedDict') and len(e.args) == 1 and not e.keywords:
      return SHALLOW, e.args[0], e
    if tail == 'copy' and isinstance(e.func, ast.Attribute) and not e.args and name not in ('copy.copy',):
      return SHALLOW, e.func.value, e
    if name == 'copy.copy' and e.args:
      return SHALLOW, e.args[0], e
    return None, None, None
  if isinstance(e, ast.Dict) and e.keys and all(k is None for k in e.keys) and len(e.values) == 1:
    return SHALLOW, e.values[0], e
  if isinstance(e, ast.DictComp) and len(e.generators) == 1:
    g = e.generators[0]
    if isinstance(g.iter, ast.Call) and astu.call_tail(g.iter) == 'items' and isinstance(g.iter.func, ast.Attribute):
      return SHALLOW, g.iter.func.value, e
  return None, None, None
