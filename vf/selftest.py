"""Self-validation of the rules of one property (thorough tier).

Breaking variants: a one-place edit of the analysed source (held in memory as an
overlay, nothing is written into /repo) must make the named rule report a new
violation.  Benign variants: behaviour-preserving edits must leave every rule
silent.  A variant whose anchor text is not present exactly `count` times in the
current tree is skipped (the tree differs from the one it was written for).
"""
from __future__ import annotations

import json
import os
from concurrent.futures import ProcessPoolExecutor

from .model import Repo


def _idents(ctx):
  return {f.ident() for R in ctx.rules for f in R.findings}


def _one(args):
  prop, root, mid, file, old, new, expect, kind, count, base = args
  from . import check
  path = os.path.join(root, file)
  try:
    with open(path, encoding='utf-8') as f:
      text = f.read()
  except OSError:
    return (mid, 'skipped', 'file missing')
  if text.count(old) != count:
    return (mid, 'skipped', 'anchor text found %d times (expected %d)' % (text.count(old), count))
  new_text = text.replace(old, new)
  try:
    compile(new_text, file, 'exec', dont_inherit=True)
  except SyntaxError as e:
    return (mid, 'broken-variant', 'variant does not compile: %s' % e)
  try:
    repo = Repo(root, overlay={file: new_text})
    ctx, errors = check.run_rules(prop, root, 'quick', repo=repo)
  except Exception as e:
    return (mid, 'error', '%s: %s' % (type(e).__name__, e))
  new_f = sorted(_idents(ctx) - set(base))
  if kind == 'break':
    hit = [i for i in new_f if expect is None or i.startswith(expect + '|')]
    if hit:
      return (mid, 'detected', hit[0][:160])
    if errors:
      return (mid, 'missed', 'rule did not fire; analysis errors instead: %s' % errors[0][:200])
    return (mid, 'missed', 'no new finding for %s (new: %s)' % (expect, new_f[:2]))
  if new_f or errors:
    return (mid, 'false-alarm', (new_f + errors)[0][:200])
  return (mid, 'silent', '')


VERIF = os.path.dirname(os.path.dirname(os.path.abspath(__file__)))


_EXPECTED = None


def _expected_detected():
  """Names of the stored seeded changes the checks are known to report (seeded/DETECTED.json, written by tools/regress.py
  --write-detected): a regression on one of them fails the thorough tier; the others are reported as limits."""
  global _EXPECTED
  if _EXPECTED is None:
    try:
      with open(os.path.join(VERIF, 'seeded', 'DETECTED.json'), encoding='utf-8') as f:
        _EXPECTED = set(json.load(f))
    except (OSError, ValueError):
      _EXPECTED = set()
  return _EXPECTED


def _corpus(prop):
  """Stored material for this property: seeded/<prop>-* (must be reported) and benign/<prop>-* (must not)."""
  out = []
  for kind, sub in (('break', 'seeded'), ('benign-corpus', 'benign')):
    d = os.path.join(VERIF, sub)
    if not os.path.isdir(d):
      continue
    for name in sorted(os.listdir(d)):
      pf = os.path.join(d, name, 'patch.diff')
      if name.split('-')[0] == prop and os.path.isfile(pf):
        out.append(('%s/%s' % (sub, name), kind, pf))
  return out


def _one_patch(args):
  prop, root, mid, kind, patch_file, base = args
  from . import check, udiff
  try:
    with open(patch_file, encoding='utf-8') as f:
      ptxt = f.read()

    def read(rel):
      try:
        with open(os.path.join(root, rel), encoding='utf-8') as g:
          return g.read()
      except OSError:
        return None
    overlay = udiff.apply(ptxt, read)
  except udiff.PatchError as e:
    return (mid, 'skipped', 'patch does not apply to this tree: %s' % e)
  overlay = {k: v for k, v in overlay.items() if k.startswith('flax/') and k.endswith('.py')}
  try:
    for k, v in overlay.items():
      compile(v, k, 'exec', dont_inherit=True)
    repo = Repo(root, overlay=overlay)
    ctx, errors = check.run_rules(prop, root, 'quick', repo=repo)
  except Exception as e:
    return (mid, 'error', '%s: %s' % (type(e).__name__, e))
  new_f = sorted(_idents(ctx) - set(base))
  if kind == 'break':
    if new_f:
      return (mid, 'detected', new_f[0][:160])
    return (mid, 'missed', 'stored seeded change not reported%s' % ((': ' + errors[0][:160]) if errors else ''))
  if new_f:
    return (mid, 'false-alarm', new_f[0][:200])
  return (mid, 'inconclusive' if errors else 'silent', errors[0][:160] if errors else '')


def run(prop, root):
  from . import check
  from .props import META
  check.load_prop(prop)
  muts = META.get(prop, {}).get('mutants', [])
  ctx, _ = check.run_rules(prop, root, 'quick')
  base = sorted(_idents(ctx))
  jobs = [(prop, root, m.id, m.file, m.old, m.new, m.expect, m.kind, m.count, base) for m in muts]
  corpus = _corpus(prop)
  pjobs = [(prop, root, mid, kind, pf, base) for mid, kind, pf in corpus]
  res = []
  if jobs or pjobs:
    with ProcessPoolExecutor(max_workers=min(16, len(jobs) + len(pjobs))) as ex:
      res = list(ex.map(_one, jobs)) + list(ex.map(_one_patch, pjobs))
  out = {'break_total': 0, 'break_detected': 0, 'benign_total': 0, 'benign_silent': 0, 'skipped': 0,
         'failures': [], 'results': []}
  kinds = {m.id: m.kind for m in muts}
  kinds.update({mid: kind for mid, kind, _ in corpus})
  out.update({'corpus_break_total': 0, 'corpus_break_detected': 0, 'corpus_benign_total': 0, 'corpus_benign_silent': 0, 'corpus_benign_inconclusive': 0})
  for mid, status, detail in res:
    if mid.startswith('seeded/') or mid.startswith('benign/'):
      out['results'].append({'variant': mid, 'kind': kinds[mid], 'status': status, 'detail': detail})
      if status == 'skipped':
        out['skipped'] += 1
      elif kinds[mid] == 'break':
        out['corpus_break_total'] += 1
        if status == 'detected':
          out['corpus_break_detected'] += 1
        elif mid.split('/', 1)[1] in _expected_detected():
          out['failures'].append('stored seeded change %s not detected: %s' % (mid, detail))
        else:
          # a confirmed breaking change the rules do not reach (recorded limit of the analysis, listed in DESIGN.md): reported, not failed
          out['corpus_break_missed'] = out.get('corpus_break_missed', []) + [mid]
      else:
        out['corpus_benign_total'] += 1
        if status == 'silent':
          out['corpus_benign_silent'] += 1
        elif status == 'inconclusive':
          out['corpus_benign_inconclusive'] += 1
        else:
          out['failures'].append('stored behaviour-preserving refactoring %s raised an alarm: %s' % (mid, detail))
      continue
    out['results'].append({'variant': mid, 'kind': kinds[mid], 'status': status, 'detail': detail})
    if status == 'skipped':
      out['skipped'] += 1
      continue
    if kinds[mid] == 'break':
      out['break_total'] += 1
      if status == 'detected':
        out['break_detected'] += 1
      else:
        out['failures'].append('breaking variant %s not detected: %s' % (mid, detail))
    else:
      out['benign_total'] += 1
      if status == 'silent':
        out['benign_silent'] += 1
      else:
        out['failures'].append('benign variant %s raised an alarm: %s' % (mid, detail))
  return out
