"""K8: exact abstract interpretation of the Linen collection-filter functions.

The functions in flax/core/scope.py that implement the filter algebra are tiny
decision lists over the *shape* of their arguments.  We evaluate their ASTs (the
source is parsed, never imported) over an abstract domain:

  shapes   T (True) | F (False) | S_i (a str) | C_i (a non-str Collection)
           | D(shape) (DenyList) | X(formula) (a filter known only by its denotation:
           the result of a recursive call, by the induction hypothesis)
  SET(f)   a python set whose membership predicate is the formula f
  BOOL(f)  a python bool given by the formula f
  COL      the generic collection name being tested / FRESH a name that occurs in no filter

Formulas are propositional over atoms  m_i ("the generic name is matched by base
filter i")  and  e_i ("collection i is empty", which implies not m_i).  Two
results are compared by truth table over the consistent assignments, so a verdict
holds for every concrete str / collection, not for sampled ones.

Anything outside this fragment raises Unsupported (the check fails closed).
"""
from __future__ import annotations

import ast
import itertools

from . import astu


class Unsupported(Exception):
  pass


class Obligation(Exception):
  """An assert / raise is reachable for a well-formed input."""


# ---- formulas ------------------------------------------------------------------
def f_not(a):
  if isinstance(a, bool):
    return not a
  return ('not', a)


def f_and(a, b):
  if a is False or b is False:
    return False
  if a is True:
    return b
  if b is True:
    return a
  return ('and', a, b)


def f_or(a, b):
  if a is True or b is True:
    return True
  if a is False:
    return b
  if b is False:
    return a
  return ('or', a, b)


def atoms(f, acc=None):
  acc = set() if acc is None else acc
  if isinstance(f, tuple):
    if f[0] == 'atom':
      acc.add(f[1])
    else:
      for x in f[1:]:
        atoms(x, acc)
  return acc


def ev(f, env):
  if isinstance(f, bool):
    return f
  if f[0] == 'atom':
    return env[f[1]]
  if f[0] == 'not':
    return not ev(f[1], env)
  if f[0] == 'and':
    return ev(f[1], env) and ev(f[2], env)
  if f[0] == 'or':
    return ev(f[1], env) or ev(f[2], env)
  raise Unsupported('formula %r' % (f,))


def equivalent(f, g):
  """(ok, counterexample) over assignments consistent with e_i -> not m_i."""
  names = sorted(atoms(f) | atoms(g))
  for vals in itertools.product([False, True], repeat=len(names)):
    env = dict(zip(names, vals))
    if any(n.startswith('e_') and v and env.get('m_' + n[2:], False) for n, v in env.items()):
      continue
    if ev(f, env) != ev(g, env):
      return False, env
  return True, None


# ---- shapes ----------------------------------------------------------------------
def member(shape, col='COL'):
  """Membership formula of the generic (or fresh) name in a filter shape: the specification."""
  k = shape[0]
  if k == 'T':
    return True
  if k == 'F':
    return False
  if k in ('S', 'C'):
    return False if col == 'FRESH' else ('atom', 'm_%s' % shape[1])
  if k == 'D':
    return f_not(member(shape[1], col))
  if k == 'X':
    if col == 'FRESH':
      raise Unsupported('fresh-name membership of an opaque filter')
    return shape[1]
  raise Unsupported('shape %r' % (shape,))


def spec_empty(shape):
  k = shape[0]
  if k == 'T' or k == 'S':
    return False
  if k == 'F':
    return True
  if k == 'C':
    return ('atom', 'e_%s' % shape[1])
  if k == 'D':
    return spec_univ(shape[1])
  raise Unsupported('shape %r' % (shape,))


def spec_univ(shape):
  k = shape[0]
  if k == 'T':
    return True
  if k in ('F', 'S', 'C'):
    return False
  if k == 'D':
    return spec_empty(shape[1])
  raise Unsupported('shape %r' % (shape,))


def show(shape):
  k = shape[0]
  if k == 'T':
    return 'True'
  if k == 'F':
    return 'False'
  if k == 'S':
    return "'s%s'" % shape[1]
  if k == 'C':
    return 'coll%s' % shape[1]
  if k == 'D':
    return 'DenyList(%s)' % show(shape[1])
  return '<filter>'


def shapes(depth, ident):
  base = [('T',), ('F',), ('S', ident), ('C', ident)]
  out = list(base)
  cur = base
  for _ in range(depth):
    cur = [('D', s) for s in cur]
    out += cur
  return out


ALGEBRA = {'union_filters': f_or, 'intersect_filters': f_and, 'subtract_filters': lambda a, b: f_and(a, f_not(b))}


class Interp:
  """Abstract interpreter for one call of a filter function."""

  def __init__(self, funcs: dict, depth_budget=12):
    self.funcs = funcs  # name -> ast.FunctionDef (the six functions)
    self.budget = depth_budget
    self.rec_calls = []  # (callee, [arg exprs src], [arg shapes]) for well-foundedness checks

  # -- expression evaluation --------------------------------------------------------
  def isinst(self, val, tname):
    t = tname.split('.')[-1]
    if val[0] in ('X',):
      raise Unsupported('isinstance test on the result of a recursive call')
    if val[0] in ('SET', 'BOOL', 'COL', 'FRESH'):
      raise Unsupported('isinstance on non-filter value')
    k = val[0]
    if t == 'str':
      return k == 'S'
    if t == 'Collection':
      return k in ('S', 'C')  # a str *is* a Collection
    if t == 'bool':
      return k in ('T', 'F')
    if t == 'DenyList':
      return k == 'D'
    raise Unsupported('isinstance(_, %s)' % tname)

  def truth(self, v):
    """Python truthiness of a value as a formula."""
    if isinstance(v, bool):
      return v
    if v[0] == 'BOOL':
      return v[1]
    if v[0] == 'T':
      return True
    if v[0] == 'F':
      return False
    if v[0] == 'C':
      return f_not(('atom', 'e_%s' % v[1]))
    if v[0] == 'S':
      return True  # collection names are non-empty strings
    if v[0] == 'D':
      return True
    raise Unsupported('truthiness of %r' % (v,))

  def eval(self, e, env, depth):
    if isinstance(e, ast.Constant):
      if e.value is True:
        return ('T',)
      if e.value is False:
        return ('F',)
      if isinstance(e.value, str):
        return ('FRESH',)
      if e.value is None or isinstance(e.value, (int, float)):
        return ('OPAQUE',)
      raise Unsupported('constant %r' % (e.value,))
    if isinstance(e, ast.Name):
      if e.id not in env:
        raise Unsupported('unknown name %s' % e.id)
      return env[e.id]
    if isinstance(e, ast.Attribute) and e.attr == 'deny':
      v = self.eval(e.value, env, depth)
      if v[0] != 'D':
        raise Obligation('.deny read on a non-DenyList (%s)' % show(v))
      return v[1]
    if isinstance(e, ast.UnaryOp) and isinstance(e.op, ast.Not):
      return ('BOOL', f_not(self.truth(self.eval(e.operand, env, depth))))
    if isinstance(e, ast.BoolOp):
      vals = [self.truth(self.eval(x, env, depth)) for x in e.values]
      out = vals[0]
      for v in vals[1:]:
        out = f_and(out, v) if isinstance(e.op, ast.And) else f_or(out, v)
      return ('BOOL', out)
    if isinstance(e, ast.Compare) and len(e.ops) == 1:
      op = e.ops[0]
      l = self.eval(e.left, env, depth)
      r = self.eval(e.comparators[0], env, depth)
      if isinstance(op, (ast.Is, ast.IsNot)):
        if r[0] not in ('T', 'F') or l[0] in ('SET', 'BOOL', 'COL', 'FRESH'):
          raise Unsupported('identity test %s' % astu.src(e))
        if l[0] == 'X':
          raise Unsupported('identity test on the result of a recursive call')
        res = l[0] == r[0]
        return ('BOOL', res if isinstance(op, ast.Is) else not res)
      if isinstance(op, (ast.Eq, ast.NotEq)):
        pair = (l, r) if l[0] in ('COL', 'FRESH') else (r, l)
        if pair[0][0] not in ('COL', 'FRESH') or pair[1][0] != 'S':
          raise Unsupported('comparison %s' % astu.src(e))
        res = False if pair[0][0] == 'FRESH' else ('atom', 'm_%s' % pair[1][1])
        return ('BOOL', res if isinstance(op, ast.Eq) else f_not(res))
      if isinstance(op, (ast.In, ast.NotIn)):
        if l[0] not in ('COL', 'FRESH'):
          raise Unsupported('membership %s' % astu.src(e))
        if r[0] == 'C':
          res = False if l[0] == 'FRESH' else ('atom', 'm_%s' % r[1])
        elif r[0] == 'S':
          # substring test on a str: not collection membership
          res = ('atom', 'substr_%s' % r[1])
        elif r[0] == 'SET':
          if l[0] == 'FRESH':
            raise Unsupported('fresh name in a set')
          res = r[1]
        else:
          raise Unsupported('membership in %s' % show(r))
        return ('BOOL', res if isinstance(op, ast.In) else f_not(res))
      raise Unsupported('comparison %s' % astu.src(e))
    if isinstance(e, ast.BinOp) and isinstance(e.op, (ast.Sub, ast.BitOr, ast.BitAnd)):
      l, r = self.eval(e.left, env, depth), self.eval(e.right, env, depth)
      if l[0] != 'SET' or r[0] != 'SET':
        raise Unsupported('set operator on non-sets: %s' % astu.src(e))
      if isinstance(e.op, ast.Sub):
        return ('SET', f_and(l[1], f_not(r[1])))
      return ('SET', f_or(l[1], r[1]) if isinstance(e.op, ast.BitOr) else f_and(l[1], r[1]))
    if isinstance(e, ast.Set):
      if len(e.elts) == 1:
        v = self.eval(e.elts[0], env, depth)
        if v[0] == 'S':
          return ('SET', ('atom', 'm_%s' % v[1]))
      raise Unsupported('set display %s' % astu.src(e))
    if isinstance(e, ast.Call):
      return self.call(e, env, depth)
    raise Unsupported('expression %s' % astu.src(e))

  def call(self, e, env, depth):
    name = astu.call_name(e)
    if e.keywords:
      raise Unsupported('keyword call %s' % astu.src(e))
    if name == 'isinstance' and len(e.args) == 2:
      v = self.eval(e.args[0], env, depth)
      ts = e.args[1].elts if isinstance(e.args[1], ast.Tuple) else [e.args[1]]
      return ('BOOL', any(self.isinst(v, astu.src(t)) for t in ts))
    if name == 'DenyList' and len(e.args) == 1:
      v = self.eval(e.args[0], env, depth)
      if v[0] == 'SET':
        v = ('X', v[1])
      if v[0] in ('BOOL', 'COL', 'FRESH'):
        raise Unsupported('DenyList of a non-filter')
      return ('D', v)
    if name == 'set' and len(e.args) <= 1:
      if not e.args:
        return ('SET', False)
      v = self.eval(e.args[0], env, depth)
      if v[0] == 'C':
        return ('SET', ('atom', 'm_%s' % v[1]))
      if v[0] == 'SET':
        return v
      raise Unsupported('set(%s)' % show(v))
    if isinstance(e.func, ast.Attribute) and e.func.attr in ('union', 'intersection', 'difference') and len(e.args) == 1:
      l, r = self.eval(e.func.value, env, depth), self.eval(e.args[0], env, depth)
      if l[0] != 'SET' or r[0] != 'SET':
        raise Unsupported('set method on non-sets: %s' % astu.src(e))
      return ('SET', {'union': f_or(l[1], r[1]), 'intersection': f_and(l[1], r[1]),
                      'difference': f_and(l[1], f_not(r[1]))}[e.func.attr])
    if name in self.funcs:
      args = [self.eval(a, env, depth) for a in e.args]
      if name in ALGEBRA:
        # induction hypothesis for (mutually) recursive calls of the algebra
        self.rec_calls.append((name, [astu.src(a) for a in e.args], args))
        fs = []
        for a in args:
          if a[0] == 'SET':
            a = ('X', a[1])
          fs.append(member(a))
        return ('X', ALGEBRA[name](fs[0], fs[1]))
      return self.run(name, args, depth + 1)
    raise Unsupported('call %s' % astu.src(e))

  # -- statements -----------------------------------------------------------------------
  def run(self, fname, args, depth=0):
    if depth > self.budget:
      raise Unsupported('recursion budget exceeded in %s' % fname)
    fn = self.funcs[fname]
    ps = astu.params(fn)
    if len(ps) != len(args):
      raise Unsupported('arity of %s' % fname)
    env = dict(zip(ps, args))
    r = self.block(astu.strip_docstring(fn.body), env, depth)
    if r is None:
      raise Obligation('%s falls off its end (returns None) for %s' % (fname, ', '.join(map(show, args))))
    return r

  def block(self, stmts, env, depth):
    for st in stmts:
      if isinstance(st, ast.If):
        t = self.truth(self.eval(st.test, env, depth))
        if not isinstance(t, bool):
          raise Unsupported('branch on a symbolic condition: %s' % astu.src(st.test))
        r = self.block(st.body if t else st.orelse, env, depth)
        if r is not None:
          return r
      elif isinstance(st, ast.Return):
        if st.value is None:
          raise Obligation('bare return')
        return self.eval(st.value, env, depth)
      elif isinstance(st, ast.Assign) and len(st.targets) == 1:
        tgt = st.targets[0]
        if isinstance(tgt, ast.Name):
          env[tgt.id] = self.eval(st.value, env, depth)
        elif isinstance(tgt, ast.Tuple) and isinstance(st.value, ast.Tuple) and len(tgt.elts) == len(st.value.elts) and \
            all(isinstance(x, ast.Name) for x in tgt.elts):
          vals = [self.eval(v, env, depth) for v in st.value.elts]
          for x, v in zip(tgt.elts, vals):
            env[x.id] = v
        else:
          raise Unsupported('assignment %s' % astu.src(st))
      elif isinstance(st, ast.Assert):
        t = self.truth(self.eval(st.test, env, depth))
        if not isinstance(t, bool):
          raise Unsupported('symbolic assert')
        if not t:
          raise Obligation('assertion `%s` fails' % astu.short(st.test))
      elif isinstance(st, ast.Raise):
        raise Obligation('raises %s' % astu.short(st.exc))
      elif isinstance(st, ast.Expr) and isinstance(st.value, ast.Constant):
        continue
      elif isinstance(st, ast.Pass):
        continue
      else:
        raise Unsupported('statement %s' % astu.short(st))
    return None


def result_membership(v):
  """Membership formula of a value returned as a filter."""
  if v[0] == 'SET':
    return v[1]
  if v[0] == 'BOOL':
    if isinstance(v[1], bool):
      return v[1]
    raise Unsupported('symbolic bool returned as a filter')
  return member(v)


def measure(shape):
  """DenyList nesting depth (the induction measure of the algebra)."""
  n = 0
  while shape[0] == 'D':
    n += 1
    shape = shape[1]
  if shape[0] in ('X', 'SET'):
    return None
  return n
