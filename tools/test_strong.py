#!/venv/bin/python
"""Unit tests of the strong normal form (vf/strong.py): pairs that must / must not have the same digest."""
import ast, os, sys, textwrap
sys.path.insert(0, os.path.dirname(os.path.dirname(os.path.abspath(__file__))))
from vf import canon
H = 'import jax.numpy as jnp\nfrom jax import lax\n'
def dg(src):
  return canon.digest(ast.parse(H + textwrap.dedent(src)))
SAME = [
  # temporaries for calls, in evaluation order
  ('def f(x):\n  t = g(x)\n  return h(t)\n', 'def f(x):\n  return h(g(x))\n'),
  # pure temporaries
  ('def f(x, r):\n  k = 1.0 - r\n  return lax.select(m(x), x / k, jnp.zeros_like(x))\n', 'def f(x, r):\n  return lax.select(m(x), x / (1.0 - r), jnp.zeros_like(x))\n'),
  # else after return
  ('def f(x):\n  if x:\n    return a(x)\n  else:\n    return b(x)\n', 'def f(x):\n  if x:\n    return a(x)\n  return b(x)\n'),
  # guard clause vs nested
  ('def f(x):\n  if not x:\n    return None\n  y = a(x)\n  return y\n', 'def f(x):\n  if x:\n    y = a(x)\n    return y\n  return None\n'),
  ('def f(x):\n  if x is None:\n    raise E()\n  return a(x)\n', 'def f(x):\n  if x is not None:\n    return a(x)\n  raise E()\n'),
  # loop: continue guard
  ('def f(xs):\n  for x in xs:\n    if not p(x):\n      continue\n    q(x)\n', 'def f(xs):\n  for x in xs:\n    if p(x):\n      q(x)\n'),
  # renamed locals, reordered keywords
  ('def f(x):\n  a = g(x, k=1, j=2)\n  return a\n', 'def f(x):\n  bb = g(x, j=2, k=1)\n  return bb\n'),
  # state read named
  ('def f(self):\n  c = self.count\n  return g(c)\n', 'def f(self):\n  return g(self.count)\n'),
  # store through an attribute chain
  ('def f(self, x):\n  v = g(x)\n  self.a.value = v\n', 'def f(self, x):\n  self.a.value = g(x)\n'),
  # or-split of a terminating branch, and-nesting, De Morgan
  ('def f(a, b, x):\n  if a or b:\n    return x\n  return g(x)\n', 'def f(a, b, x):\n  if a:\n    return x\n  if b:\n    return x\n  return g(x)\n'),
  ('def f(a, b, x):\n  if a and b:\n    x = h(x)\n  return g(x)\n', 'def f(a, b, x):\n  if a:\n    if b:\n      x = h(x)\n  return g(x)\n'),
  ('def f(a, b, x):\n  if not (a and b is None):\n    return x\n  return g(x)\n', 'def f(a, b, x):\n  if not a or b is not None:\n    return x\n  return g(x)\n'),
  ('def f(fs, S):\n  if not all(x in S for x in fs):\n    raise E()\n  return 1\n', 'def f(fs, S):\n  if any(x not in S for x in fs):\n    raise E()\n  return 1\n'),
]
DIFF = [
  ('def f(a, b, x):\n  if a or b:\n    return x\n  return g(x)\n', 'def f(a, b, x):\n  if b:\n    return x\n  if a:\n    return x\n  return g(x)\n'),
  ('def f(a, b, x):\n  if a and b:\n    return x\n  return g(x)\n', 'def f(a, b, x):\n  if a or b:\n    return x\n  return g(x)\n'),
  # order of two calls
  ('def f(x):\n  a = g(x)\n  b = h(x)\n  return k(b, a)\n', 'def f(x):\n  return k(h(x), g(x))\n'),
  # state read moved across a call
  ('def f(self):\n  c = self.count\n  self.bump()\n  return g(c)\n', 'def f(self):\n  self.bump()\n  return g(self.count)\n'),
  # read-then-advance vs advance-then-read
  ('def f(self):\n  i = self.i.value\n  self.i.value = i + 1\n  return i\n', 'def f(self):\n  self.i.value = self.i.value + 1\n  return self.i.value\n'),
  # fresh mutable object is not duplicated
  ('def f(xs):\n  d = {}\n  for x in xs:\n    d[x] = 1\n  return d\n', 'def f(xs):\n  for x in xs:\n    {}[x] = 1\n  return {}\n'),
  # conditional evaluation kept
  ('def f(a, x):\n  t = g(x)\n  return a and t\n', 'def f(a, x):\n  return a and g(x)\n'),
  # rebinding between definition and use
  ('def f(x, y):\n  t = y + 1\n  y = g(x)\n  return h(t, y)\n', 'def f(x, y):\n  y = g(x)\n  return h(y + 1, y)\n'),
  # dropped argument / swapped operands / changed constant / inverted test
  ('def f(x):\n  return g(x, k=1)\n', 'def f(x):\n  return g(x)\n'),
  ('def f(a, b):\n  return a - b\n', 'def f(a, b):\n  return b - a\n'),
  ('def f(x):\n  if x:\n    return a(x)\n  return b(x)\n', 'def f(x):\n  if not x:\n    return a(x)\n  return b(x)\n'),
  ('def f(xs):\n  for x in xs:\n    if p(x):\n      continue\n    q(x)\n', 'def f(xs):\n  for x in xs:\n    if p(x):\n      q(x)\n'),
  # loop variable temp used after the loop must not be removed
  ('def f(xs):\n  for x in xs:\n    t = x + 1\n  return t\n', 'def f(xs):\n  for x in xs:\n    pass\n  return x + 1\n'),
  # while test re-evaluated
  ('def f(x):\n  t = g(x)\n  while t:\n    x = h(x)\n', 'def f(x):\n  while g(x):\n    x = h(x)\n'),
  # augmented assignment through an attribute: the load precedes the call
  ('def f(self, x):\n  t = g(x)\n  self.n += t\n', 'def f(self, x):\n  self.n += g(x)\n'),
]
bad = 0
for a, b in SAME:
  if dg(a) != dg(b):
    bad += 1; print('SHOULD BE EQUAL:\n%s\n---\n%s' % (a, b))
for a, b in DIFF:
  if dg(a) == dg(b):
    bad += 1; print('SHOULD DIFFER:\n%s\n---\n%s' % (a, b))
print('strong normal form: %d equal pairs, %d distinct pairs, %d failures' % (len(SAME), len(DIFF), bad))
sys.exit(1 if bad else 0)
