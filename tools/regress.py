#!/venv/bin/python
"""Regression matrix of the checks against the stored seeded changes (must be DETECTED) and behaviour-preserving
refactorings (must not raise a VIOLATION; exit 2 = inconclusive is tolerated but counted).

usage: tools/regress.py [C01 ...] [--match REGEX-on-names] [--src-refactors /tmp/wtb]   (default: /verif/benign and /verif/seeded)
"""
import json, os, shutil, subprocess, sys, tempfile
from concurrent.futures import ThreadPoolExecutor
V = os.path.dirname(os.path.dirname(os.path.abspath(__file__)))
props = [a for a in sys.argv[1:] if a.startswith('C')] or ['C%02d' % i for i in range(1, 21)]
src_ref = None
if '--src-refactors' in sys.argv:
  src_ref = sys.argv[sys.argv.index('--src-refactors') + 1]


import re
MATCH = re.compile(sys.argv[sys.argv.index('--match') + 1]) if '--match' in sys.argv else None


def cases():
  return [c for c in _cases() if MATCH is None or MATCH.search(c[1])]


def _cases():
  out = []
  for d in sorted(os.listdir(os.path.join(V, 'seeded'))):
    p = os.path.join(V, 'seeded', d)
    if os.path.isfile(os.path.join(p, 'patch.diff')) and d.split('-')[0] in props:
      out.append(('seed', d, d.split('-')[0], os.path.join(p, 'patch.diff')))
  if src_ref:
    for prop in props:
      for r in ('R1', 'R2', 'R3'):
        f = os.path.join(src_ref, prop, 'refactors', r, 'patch.diff')
        if os.path.isfile(f):
          out.append(('refactor', '%s-%s' % (prop, r), prop, f))
  else:
    bd = os.path.join(V, 'benign')
    for d in sorted(os.listdir(bd)) if os.path.isdir(bd) else []:
      if d.split('-')[0] in props:
        out.append(('refactor', d, d.split('-')[0], os.path.join(bd, d, 'patch.diff')))
  return out


def run(case):
  kind, name, prop, patch = case
  tmp = tempfile.mkdtemp(prefix='regress-')
  try:
    shutil.copytree('/repo/flax', os.path.join(tmp, 'flax'), ignore=shutil.ignore_patterns('__pycache__'))
    p = subprocess.run(['patch', '-p1', '-s', '-d', tmp, '-i', patch], capture_output=True, text=True)
    if p.returncode != 0:
      return case, 'patch-failed', []
    r = subprocess.run([os.path.join(V, 'bin', 'check'), prop, '--root', tmp, '--no-evidence'], capture_output=True, text=True, cwd=V)
    rules = sorted({l.split()[1] for l in r.stdout.splitlines() if l.startswith('flax/') and len(l.split()) > 1 and l.split()[1].startswith(prop)})
    inc = sorted({l.split()[1].rstrip(':') for l in r.stdout.splitlines() if l.startswith('ANALYSIS-')})
    return case, {0: 'silent', 1: 'VIOLATION', 2: 'inconclusive'}.get(r.returncode, str(r.returncode)), rules if r.returncode == 1 else inc
  finally:
    shutil.rmtree(tmp, ignore_errors=True)


with ThreadPoolExecutor(max_workers=12) as ex:
  res = list(ex.map(run, cases()))
bad = 0
tot = {'seed': [0, 0, 0], 'refactor': [0, 0, 0]}
for (kind, name, prop, patch), status, rules in res:
  ok = (status == 'VIOLATION') if kind == 'seed' else (status == 'silent')
  tot[kind][0] += 1
  tot[kind][1] += 1 if ok else 0
  tot[kind][2] += 1 if status == 'inconclusive' else 0
  flag = 'ok ' if ok else ('~~ ' if status == 'inconclusive' else 'BAD')
  if not ok:
    bad += 1
  if not ok or '--all' in sys.argv:
    print('%s %-8s %-10s %-12s %s' % (flag, kind, name, status, ' '.join(rules)))
print('seeds: %d/%d detected (%d inconclusive); refactors: %d/%d silent (%d inconclusive, %d false VIOLATION)' % (
    tot['seed'][1], tot['seed'][0], tot['seed'][2], tot['refactor'][1], tot['refactor'][0], tot['refactor'][2], tot['refactor'][0] - tot['refactor'][1] - tot['refactor'][2]))
if '--write-detected' in sys.argv:
  det = sorted(name for (kind, name, prop, patch), status, rules in res if kind == 'seed' and status == 'VIOLATION')
  json.dump(det, open(os.path.join(V, 'seeded', 'DETECTED.json'), 'w'), indent=0)
  print('wrote seeded/DETECTED.json: %d seeds' % len(det))
