#!/venv/bin/python
"""Robustness stress test: rename every local variable of every function in the files a property reads
(behaviour-preserving alpha-renaming, done on the AST, held in memory) and run the property's rules on the result.

usage: tools/alpha_rename.py [C01 C02 ...] [--suffix _r] [--show]
Any new VIOLATION / ANALYSIS-ERROR is a false alarm caused by a rule that depends on local variable names.
"""
import ast, os, sys
sys.path.insert(0, os.path.dirname(os.path.dirname(os.path.abspath(__file__))))
from vf import check
from vf.model import Repo

SUFFIX = '_r'
for i, a in enumerate(sys.argv):
  if a == '--suffix':
    SUFFIX = sys.argv[i + 1]


def locals_of(fn):
  """Names bound by assignment-like constructs directly in fn (not params, not nested defs' locals, not global/nonlocal)."""
  out, skip = set(), set()
  stack = list(fn.body)
  while stack:
    n = stack.pop()
    if isinstance(n, (ast.FunctionDef, ast.AsyncFunctionDef, ast.ClassDef)):
      continue  # nested function names themselves are kept (rules address them by qualified name)
    if isinstance(n, ast.Lambda):
      continue
    if isinstance(n, (ast.Global, ast.Nonlocal)):
      skip |= set(n.names)
    if isinstance(n, ast.Name) and isinstance(n.ctx, (ast.Store, ast.Del)):
      out.add(n.id)
    if isinstance(n, (ast.ListComp, ast.SetComp, ast.DictComp, ast.GeneratorExp)):
      # comprehension variables are their own scope: collected separately below
      for g in n.generators:
        stack.append(g.iter)
      continue
    if isinstance(n, ast.ExceptHandler) and n.name:
      pass
    stack.extend(ast.iter_child_nodes(n))
  a = fn.args
  params = {x.arg for x in a.posonlyargs + a.args + a.kwonlyargs} | ({a.vararg.arg} if a.vararg else set()) | ({a.kwarg.arg} if a.kwarg else set())
  return {x for x in out - skip - params if not x.startswith('__') and x != '_'}


class Renamer(ast.NodeTransformer):
  def __init__(self):
    self.env = [{}]  # stack of rename maps

  def lookup(self, name):
    for m in reversed(self.env):
      if name in m:
        return m[name]
    return name

  def visit_FunctionDef(self, node):
    node.decorator_list = [self.visit(d) for d in node.decorator_list]
    # defaults are evaluated in the enclosing scope
    node.args.defaults = [self.visit(d) for d in node.args.defaults]
    node.args.kw_defaults = [self.visit(d) if d is not None else None for d in node.args.kw_defaults]
    loc = locals_of(node)
    a = node.args
    params = {x.arg for x in a.posonlyargs + a.args + a.kwonlyargs} | ({a.vararg.arg} if a.vararg else set()) | ({a.kwarg.arg} if a.kwarg else set())
    m = {n: n + SUFFIX for n in loc}
    for p in params:
      m[p] = p  # parameters shadow outer renamed locals
    # names of nested defs/classes shadow too
    for ch in node.body:
      if isinstance(ch, (ast.FunctionDef, ast.AsyncFunctionDef, ast.ClassDef)):
        m.setdefault(ch.name, ch.name)
    self.env.append(m)
    node.body = [self.visit(s) for s in node.body]
    self.env.pop()
    return node

  visit_AsyncFunctionDef = visit_FunctionDef

  def visit_Lambda(self, node):
    a = node.args
    params = {x.arg for x in a.posonlyargs + a.args + a.kwonlyargs} | ({a.vararg.arg} if a.vararg else set()) | ({a.kwarg.arg} if a.kwarg else set())
    node.args.defaults = [self.visit(d) for d in node.args.defaults]
    self.env.append({p: p for p in params})
    node.body = self.visit(node.body)
    self.env.pop()
    return node

  def visit_ClassDef(self, node):
    node.decorator_list = [self.visit(d) for d in node.decorator_list]
    node.bases = [self.visit(b) for b in node.bases]
    # class body names are attributes: do not rename, and they do not leak into methods
    self.env.append({'__class_scope__': True})
    saved = self.env
    self.env = [{}]  # methods do not see enclosing function locals through the class body... (they do, but rare); keep outer maps
    self.env = saved
    node.body = [self.visit(s) for s in node.body]
    self.env.pop()
    return node

  def _comp(self, node, elts):
    m = {}
    for g in node.generators:
      for n in ast.walk(g.target):
        if isinstance(n, ast.Name):
          m[n.id] = n.id + SUFFIX
    # first iterable is evaluated in the enclosing scope
    first = self.visit(node.generators[0].iter)
    self.env.append(m)
    for i, g in enumerate(node.generators):
      g.target = self.visit(g.target)
      if i > 0:
        g.iter = self.visit(g.iter)
      g.ifs = [self.visit(x) for x in g.ifs]
    node.generators[0].iter = first
    for attr in elts:
      setattr(node, attr, self.visit(getattr(node, attr)))
    self.env.pop()
    return node

  def visit_ListComp(self, node):
    return self._comp(node, ['elt'])

  visit_SetComp = visit_ListComp
  visit_GeneratorExp = visit_ListComp

  def visit_DictComp(self, node):
    return self._comp(node, ['key', 'value'])

  def visit_Name(self, node):
    node.id = self.lookup(node.id)
    return node

  def visit_keyword(self, node):
    node.value = self.visit(node.value)
    return node

  def visit_ExceptHandler(self, node):
    if node.type is not None:
      node.type = self.visit(node.type)
    node.body = [self.visit(s) for s in node.body]
    return node

  def visit_Global(self, node):
    return node

  def visit_Nonlocal(self, node):
    node.names = [self.lookup(n) for n in node.names]
    return node


def renamed_source(path):
  src = open(path, encoding='utf-8').read()
  tree = ast.parse(src)
  # only rename inside functions (module-level names are API)
  r = Renamer()
  tree = r.visit(tree)
  ast.fix_missing_locations(tree)
  out = ast.unparse(tree)
  compile(out, path, 'exec', dont_inherit=True)
  return out


def main():
  props = [a for a in sys.argv[1:] if a.startswith('C')] or ['C%02d' % i for i in range(1, 21)]
  cache = {}
  for prop in props:
    base_ctx, base_err = check.run_rules(prop, '/repo', 'quick')
    files = sorted(base_ctx.repo._mods)
    overlay = {}
    for rel in files:
      if rel not in cache:
        cache[rel] = renamed_source(os.path.join('/repo', rel))
      overlay[rel] = cache[rel]
    repo = Repo('/repo', overlay=overlay)
    ctx, errs = check.run_rules(prop, '/repo', 'quick', repo=repo)
    base_f = {f.ident() for R in base_ctx.rules for f in R.findings}
    new = [f for R in ctx.rules for f in R.findings if f.ident() not in base_f]
    print('%s: %d files renamed, %d new findings, %d analysis errors' % (prop, len(files), len(new), len(errs)))
    if '--show' in sys.argv:
      for f in new:
        print('   VIOL %s %s :: %s' % (f.rule, f.key[:100], f.msg[:160]))
      for e in errs:
        print('   ERR  %s' % e[:260])


if __name__ == '__main__':
  main()
