#!/venv/bin/python
"""Robustness stress test 2: insert behaviour-neutral statements (`_vf_noise = None`) at the start of every block of every
function in the files a property reads (done on the AST, held in memory), optionally wrap every `return e` of a non-trivial
expression into `_vf_ret = e; return _vf_ret` (--temps), and run the property's rules on the result.

usage: tools/noise.py [C01 ...] [--temps] [--show]
A new VIOLATION is a false alarm; an analysis error / inconclusive shows a rule that depends on statement positions or counts.
"""
import ast, os, sys
sys.path.insert(0, os.path.dirname(os.path.dirname(os.path.abspath(__file__))))
from vf import check
from vf.model import Repo

TEMPS = '--temps' in sys.argv
INVERT = '--invert' in sys.argv       # if c: A else: B  ->  if not c: B else: A   (no other noise)
NESTED = '--rename-nested' in sys.argv  # every nested function f gets the name f_impl (no other noise)
MIRROR = '--mirror' in sys.argv       # a < b -> b > a, a == b -> b == a, ... for every two-operand comparison (no other noise)
SPLAT = '--splat' in sys.argv         # f(a, k=v, j=w) -> f(a, **dict(k=v, j=w)) for every call with two or more keywords (no other noise)
SPLATN = '--splat-named' in sys.argv  # y = f(a, k=v, j=w) -> _vf_kw = dict(k=v, j=w); y = f(a, **_vf_kw)   (statement-level calls only)
KWPOS = '--kw-literals' in sys.argv   # f(x, flag=True) keeps its meaning when a literal keyword is re-ordered: keywords of every call reversed


def _negate(t):
  flip = {ast.Is: ast.IsNot, ast.IsNot: ast.Is, ast.Eq: ast.NotEq, ast.NotEq: ast.Eq, ast.In: ast.NotIn, ast.NotIn: ast.In}
  if isinstance(t, ast.UnaryOp) and isinstance(t.op, ast.Not):
    return t.operand
  if isinstance(t, ast.Compare) and len(t.ops) == 1 and type(t.ops[0]) in flip:
    return ast.Compare(left=t.left, ops=[flip[type(t.ops[0])]()], comparators=t.comparators)
  return ast.UnaryOp(op=ast.Not(), operand=t)


class Invert(ast.NodeTransformer):
  def visit_If(self, node):
    self.generic_visit(node)
    if node.orelse and not (len(node.orelse) == 1 and isinstance(node.orelse[0], ast.If)):
      node.test, node.body, node.orelse = _negate(node.test), node.orelse, node.body
    return node

  def visit_IfExp(self, node):
    self.generic_visit(node)
    node.test, node.body, node.orelse = _negate(node.test), node.orelse, node.body
    return node


class Mirror(ast.NodeTransformer):
  FLIP = {ast.Lt: ast.Gt, ast.Gt: ast.Lt, ast.LtE: ast.GtE, ast.GtE: ast.LtE, ast.Eq: ast.Eq, ast.NotEq: ast.NotEq}

  def visit_Compare(self, node):
    self.generic_visit(node)
    if len(node.ops) == 1 and type(node.ops[0]) in self.FLIP:
      return ast.Compare(left=node.comparators[0], ops=[self.FLIP[type(node.ops[0])]()], comparators=[node.left])
    return node


class ReverseKeywords(ast.NodeTransformer):
  def visit_Call(self, node):
    self.generic_visit(node)
    if len(node.keywords) > 1 and all(k.arg is not None for k in node.keywords):
      node.keywords = list(reversed(node.keywords))
    return node


class Splat(ast.NodeTransformer):
  def visit_Call(self, node):
    self.generic_visit(node)
    if len(node.keywords) > 1 and all(k.arg is not None for k in node.keywords) and not (isinstance(node.func, ast.Name) and node.func.id == 'dict'):
      node.keywords = [ast.keyword(arg=None, value=ast.Call(func=ast.Name(id='dict', ctx=ast.Load()), args=[], keywords=node.keywords))]
    return node


class SplatNamed(ast.NodeTransformer):
  def __init__(self):
    self.n = 0

  def _blk(self, body):
    out = []
    for st in body:
      st = self.visit(st)
      v = getattr(st, 'value', None) if isinstance(st, (ast.Assign, ast.Expr, ast.Return)) else None
      if isinstance(v, ast.Call) and len(v.keywords) > 1 and all(k.arg is not None for k in v.keywords) and not (isinstance(v.func, ast.Name) and v.func.id == 'dict') \
          and not any(isinstance(x, (ast.Yield, ast.YieldFrom, ast.Await, ast.NamedExpr)) for x in ast.walk(v)):
        # only when evaluating the keyword values first cannot be observed: positional arguments and callee are plain names / attributes / constants
        if all(isinstance(a, (ast.Name, ast.Constant, ast.Attribute)) for a in v.args) and isinstance(v.func, (ast.Name, ast.Attribute)):
          self.n += 1
          nm = '_vf_kw%d' % self.n
          out.append(ast.Assign(targets=[ast.Name(id=nm, ctx=ast.Store())], value=ast.Call(func=ast.Name(id='dict', ctx=ast.Load()), args=[], keywords=v.keywords), lineno=0, col_offset=0))
          v.keywords = [ast.keyword(arg=None, value=ast.Name(id=nm, ctx=ast.Load()))]
      out.append(st)
    return out

  def generic_visit(self, node):
    super().generic_visit(node)
    for fld in ('body', 'orelse', 'finalbody'):
      b = getattr(node, fld, None)
      if isinstance(b, list) and b and isinstance(b[0], ast.stmt) and not isinstance(node, ast.ClassDef) and not isinstance(node, ast.Module):
        setattr(node, fld, self._blk(b))
    return node


class RenameNested(ast.NodeTransformer):
  def __init__(self):
    self.depth = 0
    self.maps = [{}]

  def visit_ClassDef(self, node):
    d, self.depth = self.depth, 0
    self.generic_visit(node)
    self.depth = d
    return node

  def visit_FunctionDef(self, node):
    if self.depth > 0:
      node.name = self.maps[-1].get(node.name, node.name)
    m = {}
    for ch in ast.walk(node):
      if isinstance(ch, (ast.FunctionDef, ast.AsyncFunctionDef)) and ch is not node:
        m[ch.name] = ch.name + '_impl'
    # only direct children get renamed in this scope
    direct = {ch.name for ch in node.body if isinstance(ch, (ast.FunctionDef, ast.AsyncFunctionDef))}
    m = {k: v for k, v in m.items() if k in direct}
    self.maps.append(m)
    self.depth += 1
    self.generic_visit(node)
    self.depth -= 1
    self.maps.pop()
    return node
  visit_AsyncFunctionDef = visit_FunctionDef

  def visit_Name(self, node):
    for m in reversed(self.maps):
      if node.id in m:
        node.id = m[node.id]
        break
    return node


class Noise(ast.NodeTransformer):
  def __init__(self):
    self.depth = 0

  def _blk(self, body, doc_ok=False):
    out = []
    start = 0
    if doc_ok and body and isinstance(body[0], ast.Expr) and isinstance(body[0].value, ast.Constant) and isinstance(body[0].value.value, str):
      out.append(body[0])
      start = 1
    out.append(ast.parse('_vf_noise = None').body[0])
    for st in body[start:]:
      st = self.visit(st)
      if TEMPS and isinstance(st, ast.Return) and st.value is not None and not isinstance(st.value, (ast.Name, ast.Constant)):
        out.append(ast.Assign(targets=[ast.Name(id='_vf_ret', ctx=ast.Store())], value=st.value, lineno=0, col_offset=0))
        out.append(ast.Return(value=ast.Name(id='_vf_ret', ctx=ast.Load())))
      else:
        out.append(st)
    return out

  def visit_FunctionDef(self, node):
    self.depth += 1
    is_gen_or_stub = len(node.body) == 1 and isinstance(node.body[0], (ast.Pass, ast.Expr, ast.Raise))
    if not is_gen_or_stub:
      node.body = self._blk(node.body, doc_ok=True)
    else:
      node.body = [self.visit(s) for s in node.body]
    self.depth -= 1
    return node
  visit_AsyncFunctionDef = visit_FunctionDef

  def visit_ClassDef(self, node):
    node.body = [self.visit(s) for s in node.body]
    return node

  def _compound(self, node):
    if self.depth == 0:
      return self.generic_visit(node)
    for fld in ('body', 'orelse', 'finalbody'):
      b = getattr(node, fld, None)
      if b:
        if fld == 'orelse' and len(b) == 1 and isinstance(b[0], ast.If) and isinstance(node, ast.If):
          setattr(node, fld, [self.visit(b[0])])   # keep elif chains
        else:
          setattr(node, fld, self._blk(b))
    for h in getattr(node, 'handlers', []) or []:
      h.body = self._blk(h.body)
    return node
  visit_If = visit_For = visit_While = visit_With = visit_Try = _compound


def noisy(path):
  tree = ast.parse(open(path, encoding='utf-8').read())
  if INVERT:
    tree = Invert().visit(tree)
  elif NESTED:
    tree = RenameNested().visit(tree)
  elif MIRROR:
    tree = Mirror().visit(tree)
  elif KWPOS:
    tree = ReverseKeywords().visit(tree)
  elif SPLAT:
    tree = Splat().visit(tree)
  elif SPLATN:
    tree = SplatNamed().visit(tree)
  else:
    tree = Noise().visit(tree)
  ast.fix_missing_locations(tree)
  out = ast.unparse(tree)
  compile(out, path, 'exec', dont_inherit=True)
  return out


def main():
  props = [a for a in sys.argv[1:] if a.startswith('C')] or ['C%02d' % i for i in range(1, 21)]
  cache = {}
  tot_v = tot_e = 0
  for prop in props:
    base_ctx, base_err = check.run_rules(prop, '/repo', 'quick')
    files = sorted(base_ctx.repo._mods)
    overlay = {}
    for rel in files:
      if rel not in cache:
        cache[rel] = noisy(os.path.join('/repo', rel))
      overlay[rel] = cache[rel]
    repo = Repo('/repo', overlay=overlay)
    ctx, errs = check.run_rules(prop, '/repo', 'quick', repo=repo)
    base_f = {f.ident() for R in base_ctx.rules for f in R.findings}
    new = [f for R in ctx.rules for f in R.findings if f.ident() not in base_f]
    inc = sum(len(R.inconclusive) for R in ctx.rules)
    tot_v += len(new)
    tot_e += len(errs)
    print('%s: %d files, %d new findings, %d rules with analysis errors, %d inconclusive instances' % (prop, len(files), len(new), len(errs), inc))
    if '--show' in sys.argv:
      for f in new:
        print('   VIOL %s %s :: %s' % (f.rule, f.key[:100], f.msg[:200]))
      for R in ctx.rules:
        for k, rel, ln, msg in R.inconclusive[:6]:
          print('   INC  %s %s :: %s' % (R.id, k[:90], msg[:160]))
      for e in errs:
        if 'inconclusive' not in e:
          print('   ERR  %s' % e[:260])
  print('total: %d new findings, %d rule errors' % (tot_v, tot_e))


if __name__ == '__main__':
  main()
