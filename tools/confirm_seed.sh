#!/bin/sh
# usage: tools/confirm_seed.sh <agent-worktree> <A|B> <property> <seed-name>
# Confirms a seeded change independently in a fresh scratch worktree of /repo HEAD and stores it under /verif/seeded/<seed-name>/.
WT=$1; S=$2; PROP=$3; NAME=$4
SRC=$WT/seeds/$S
SCR=/tmp/confirm/$NAME
OUT=/verif/seeded/$NAME
[ -f "$SRC/patch.diff" ] || { echo "no patch in $SRC"; exit 2; }
rm -rf "$SCR"; mkdir -p /tmp/confirm
git -C /repo worktree add -q --detach "$SCR" HEAD || exit 2
cd "$SCR" || exit 2
mkdir -p seeds/$S && cp "$SRC"/demo.py seeds/$S/
PYTHONPATH=$SCR /venv/bin/python seeds/$S/demo.py > /tmp/confirm/$NAME.clean.log 2>&1; CLEAN=$?
if git apply --check "$SRC/patch.diff" 2>/tmp/confirm/$NAME.apply.log; then APPLY=ok; git apply "$SRC/patch.diff"; else APPLY=failed; fi
PYTHONPATH=$SCR /venv/bin/python -c "import flax, flax.linen, flax.nnx" > /tmp/confirm/$NAME.import.log 2>&1; IMPORT=$?
PYTHONPATH=$SCR /venv/bin/python seeds/$S/demo.py > /tmp/confirm/$NAME.patched.log 2>&1; PATCHED=$?
/venv/bin/python /tmp/seedtools/run_baseline.py "$SCR" --par > /tmp/confirm/$NAME.baseline.log 2>&1; BASE=$?
mkdir -p "$OUT"
cp "$SRC/patch.diff" "$OUT/patch.diff"; cp "$SRC/demo.py" "$OUT/demo.py"; [ -f "$SRC/notes.md" ] && cp "$SRC/notes.md" "$OUT/notes.md"
FILES=$(grep '^+++ b/' "$SRC/patch.diff" | sed 's/^+++ b\///' | tr '\n' ' ')
cat > "$OUT/meta.json" <<EOF
{
 "seed": "$NAME",
 "property": "$PROP",
 "files": "$FILES",
 "author": "independent sub-agent (given only the property text and a scratch worktree)",
 "confirmed_by_me": {
  "base_commit": "$(git -C /repo rev-parse --short HEAD)",
  "patch_applies": "$APPLY",
  "package_imports_with_patch_exit": $IMPORT,
  "demo_exit_clean_tree": $CLEAN,
  "demo_exit_with_patch": $PATCHED,
  "baseline_427_with_patch_exit": $BASE,
  "baseline_summary": "$(head -1 /tmp/confirm/$NAME.baseline.log)",
  "demo_output_with_patch_tail": $(tail -3 /tmp/confirm/$NAME.patched.log | /venv/bin/python -c 'import json,sys; print(json.dumps(sys.stdin.read()[-600:]))' 2>/dev/null | tail -1),
  "commands": ["git worktree add --detach $SCR HEAD", "PYTHONPATH=$SCR python seeds/$S/demo.py  (clean)", "git apply patch.diff", "PYTHONPATH=$SCR python seeds/$S/demo.py  (patched)", "python /tmp/seedtools/run_baseline.py $SCR --par"]
 },
 "needs_to_manifest": "see notes.md",
 "valid": $([ "$APPLY" = ok ] && [ $CLEAN -eq 0 ] && [ $PATCHED -ne 0 ] && [ $BASE -eq 0 ] && [ $IMPORT -eq 0 ] && echo true || echo false)
}
EOF
cd /; git -C /repo worktree remove --force "$SCR"
echo "$NAME: apply=$APPLY clean=$CLEAN patched=$PATCHED baseline=$BASE import=$IMPORT"
