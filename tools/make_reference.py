#!/venv/bin/python
"""Record vf/reference.json from the current /repo tree (run after every fix: commit or rule change, on a clean tree)."""
import json, os, sys
sys.path.insert(0, os.path.dirname(os.path.dirname(os.path.abspath(__file__))))
from vf import check, reference
from vf.model import Repo
out = {}
from vf import generic
allrels = sorted({r for i in range(1, 21) for r in generic.anchors('C%02d' % i)} | {r for v in generic.EXTRA_FILES.values() for r in v} | {k.split('|')[1] for rid, v in (reference.load() or {}).items() if not rid.startswith('__') and isinstance(v, dict) for k in v.get('units', {})})
out['__live_params__'] = generic.live_table(Repo('/repo'), allrels)
from vf import diffrules
out['__atoms__'] = diffrules.table(Repo('/repo'), allrels)
out['__stmts__'] = diffrules.stmt_table(Repo('/repo'), allrels)
json.dump(out, open(reference.PATH, 'w'), indent=0, sort_keys=True)
reference._REF = None
for i in range(1, 21):
  prop = 'C%02d' % i
  repo = Repo('/repo')
  ctx, errors = check.run_rules(prop, '/repo', 'quick', repo=repo, use_reference=False, shared=False)
  for R in ctx.rules:
    out[R.id] = reference.snapshot(R, repo)
    if R.error:
      print('WARNING: %s has an analysis error on the reference tree: %s' % (R.id, R.error))
# digest of every function (and module) of every module any rule loaded: lets a later run compare units it consults only there
table = {}
repo = Repo('/repo')
rels = sorted({k.split('|')[1] for kk, v in out.items() if not kk.startswith('__') for k in v['units']})
for rel in rels:
  m = repo._load(rel)
  table[reference.unit_key(('mod', rel))] = reference.unit_digest(repo, ('mod', rel))
  for q in m._funcs:
    table[reference.unit_key(('func', rel, q))] = reference.unit_digest(repo, ('func', rel, q))
out['__all_units__'] = table
nested = {}
for rel in rels:
  m = repo._load(rel)
  for q, f in m._funcs.items():
    if '.' in q and q.rsplit('.', 1)[0] in m._funcs:
      kids = m._children(q.rsplit('.', 1)[0])
      from vf import astu
      nested['%s|%s' % (rel, q)] = [[k.qual for k in kids].index(q), len(astu.params(f.node)), len(kids)]
out['__nested__'] = nested
children = {}
from vf.model import _direct_nested
for rel in rels:
  m = repo._load(rel)
  for q, f in m._funcs.items():
    kids = _direct_nested(f.node)
    if kids:
      children['%s|%s' % (rel, q)] = [[k.name, len(astu.params(k))] for k in kids]
out['__children__'] = children
from vf.model import module_level_names
import ast as _ast
modnames = {}
for rel in sorted(set(rels) | set(allrels)):
  try:
    modnames[rel] = sorted(module_level_names(_ast.parse(open(os.path.join('/repo', rel), encoding='utf-8').read())))
  except (OSError, SyntaxError):
    pass
out['__module_names__'] = modnames
json.dump(out, open(reference.PATH, 'w'), indent=0, sort_keys=True)
print('rules: %d, units: %d, table: %d' % (len(out) - 7, sum(len(v['units']) for k, v in out.items() if not k.startswith('__')), len(table)))
