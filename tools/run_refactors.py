#!/venv/bin/python
"""Run the checks against every confirmed behaviour-preserving refactoring (expected: silent) (in a scratch copy of /repo/flax, never in /repo).

usage: tools/run_seeds.py [seed-name ...] [--all-props]
Prints one line per seed: which property checks report VIOLATION (exit 1), which stay silent, which fail closed (exit 2).
"""
import json, os, shutil, subprocess, sys, tempfile
V = os.path.dirname(os.path.dirname(os.path.abspath(__file__)))
names = [a for a in sys.argv[1:] if not a.startswith('--')]
allp = '--all-props' in sys.argv
seeds = sorted(d for d in os.listdir(os.path.join(V, 'benign')) if os.path.isdir(os.path.join(V, 'benign', d)))
if names:
  seeds = [s for s in seeds if s in names]
man = json.load(open(os.path.join(V, 'MANIFEST.json')))
claimed = [c['property_id'] for c in man['checks']]
results = {}
for s in seeds:
  d = os.path.join(V, 'benign', s)
  meta = json.load(open(os.path.join(d, 'meta.json')))
  tmp = tempfile.mkdtemp(prefix='seedrun-')
  try:
    shutil.copytree('/repo/flax', os.path.join(tmp, 'flax'), ignore=shutil.ignore_patterns('__pycache__'))
    p = subprocess.run(['patch', '-p1', '-s', '-d', tmp, '-i', os.path.join(d, 'patch.diff')], capture_output=True, text=True)
    if p.returncode != 0:
      print('%-8s patch does not apply: %s' % (s, (p.stdout + p.stderr).strip()[:200])); continue
    props = claimed if allp else [meta['property']] + [x for x in meta.get('also_check', []) if x in claimed]
    out = {}
    for prop in props:
      if prop not in claimed:
        out[prop] = 'unclaimed'; continue
      r = subprocess.run([os.path.join(V, 'bin', 'check'), prop, '--root', tmp, '--no-evidence'], capture_output=True, text=True, cwd=V)
      viol = [l for l in r.stdout.splitlines() if l.startswith('VIOLATION')]
      rules = sorted({l.split()[1] for l in r.stdout.splitlines() if l.startswith('flax/') and len(l.split()) > 1 and l.split()[1].startswith(prop)})
      out[prop] = {0: 'silent', 1: 'DETECTED %s' % ','.join(rules), 2: 'ANALYSIS-ERROR'}.get(r.returncode, 'exit %d' % r.returncode)
      if r.returncode == 2:
        out[prop] += ' ' + ' | '.join(l for l in r.stdout.splitlines() if l.startswith('ANALYSIS'))[:200]
    results[s] = out
    print('%-8s valid=%s  %s' % (s, meta.get('valid'), '  '.join('%s:%s' % kv for kv in out.items())))
  finally:
    shutil.rmtree(tmp, ignore_errors=True)
json.dump(results, open('/tmp/refactor_results.json', 'w'), indent=1)
