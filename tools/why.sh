#!/bin/sh
# usage: tools/why.sh Cxx-Rk   -> apply benign/Cxx-Rk/patch.diff to a scratch copy and print every inconclusive / violation line
N=$1; P=${N%%-*}
T=$(mktemp -d /tmp/why-XXXX); cp -r /repo/flax $T/flax
patch -p1 -s -d $T -i /verif/benign/$N/patch.diff >/dev/null 2>&1 || echo "patch failed"
/verif/bin/check $P --root $T --no-evidence | grep "^ANALYSIS\|^VIOLATION\|^flax\|^  [A-Za-z]" | cut -c1-420
rm -rf $T
