#!/bin/sh
# thorough tier (self-validation variants) for every property; prints only problems
cd /verif
for i in 01 02 03 04 05 06 07 08 09 10 11 12 13 14 15 16 17 18 19 20; do
  bin/check C$i --tier thorough --no-evidence | grep "^C$i\|selftest\|ANALYSIS-ERROR selftest" | cut -c1-330
done
