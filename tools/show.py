#!/venv/bin/python
"""usage: tools/show.py <file relative to /repo> <qualname> [...]  -- print function source without docstrings/comments"""
import ast, sys, os
sys.path.insert(0, os.path.dirname(os.path.dirname(os.path.abspath(__file__))))
from vf.model import Repo
repo = Repo('/repo')
m = repo.mod(sys.argv[1])
for q in sys.argv[2:]:
  f = m.funcs.get(q)
  if f is None:
    print('## no such function', q, [k for k in m.funcs if k.endswith(q.split('.')[-1])][:10]); continue
  node = f.node
  class Strip(ast.NodeTransformer):
    def visit_FunctionDef(self, n):
      self.generic_visit(n)
      if n.body and isinstance(n.body[0], ast.Expr) and isinstance(n.body[0].value, ast.Constant) and isinstance(n.body[0].value.value, str):
        n.body = n.body[1:] or [ast.Pass()]
      return n
  import copy
  n2 = Strip().visit(copy.deepcopy(node))
  print('## %s:%d %s' % (m.rel, node.lineno, q))
  print(ast.unparse(n2))
  print()
