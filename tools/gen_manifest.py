#!/venv/bin/python
"""Regenerate /verif/MANIFEST.json from the registered property modules (vf/props/cNN.py)."""
import importlib, json, os, sys
sys.path.insert(0, os.path.dirname(os.path.dirname(os.path.abspath(__file__))))
from vf.props import META, REGISTRY

V = os.path.dirname(os.path.dirname(os.path.abspath(__file__)))
props = [json.loads(l) for l in open(os.path.join(V, 'properties.jsonl'))]
NA = json.load(open(os.path.join(V, 'tools', 'not_applicable.json'))) if os.path.exists(os.path.join(V, 'tools', 'not_applicable.json')) else {}
checks, na = [], []
for p in props:
  pid = p['id']
  path = os.path.join(V, 'vf', 'props', pid.lower() + '.py')
  if pid in NA or not os.path.exists(path):
    na.append({'property_id': pid, 'reason': NA.get(pid, 'check not implemented yet (build in progress; DESIGN.md section 4 lists the planned static rules)')})
    continue
  importlib.import_module('vf.props.' + pid.lower())
  m = META.get(pid, {})
  specs = REGISTRY[pid]
  kinds = sorted({k for s in specs for k in s.kind.replace('/', '+').split('+')})
  checks.append({
      'property_id': pid,
      'quick_cmd': 'bin/check %s --tier quick' % pid,
      'thorough_cmd': 'bin/check %s --tier thorough' % pid,
      'evidence_file': 'evidence/%s.json' % pid,
      'replay_cmd_template': 'bin/check %s --replay {path}' % pid,
      'engine': 'vf',
      'level_claimed': {
          'category': 'other',
          'text': m.get('level_text') or ('Static analysis of /repo/flax source (never executed): %d repository-specific rules (%s) decide, for every execution '
                   'of the anchored functions, the structural clauses listed in DESIGN.md section 4 %s. %s' % (
                       len(specs), ', '.join(s.id.split('.')[1] for s in specs), pid,
                       m.get('coverage_verdict', ''))),
          'design_ref': 'DESIGN.md section 4, %s' % pid,
      },
      'level_note': 'Decides necessary structural conditions, not the behavioural property as a whole. A VIOLATION is reported only on positive evidence '
                    '(mechanism located in the tree under analysis and the required relation broken); code restructured beyond the fragment a rule recognises '
                    'ends as ANALYSIS-INCONCLUSIVE (exit 2), never as a silent pass; the same holds for any report on a tree whose files for this property depart broadly from the vetted reference tree (>= 4 functions changed or >= 10 reference statements gone; DESIGN.md 10.12). Not decided: ' +
                    '; '.join(m.get('not_decided', ['value-level clauses'])) +
                    '. Trusted base: python ast, vf/cfg.py statement CFG (implicit exceptions only inside try), vf/model.py name resolution; '
                    'assumes no monkey-patching and documented behaviour of external libraries.',
      'technique': (m.get('technique') or ('static analysis: custom AST/CFG/call-graph rules (%s)' % ', '.join(kinds))) +
                   '; plus two rules that apply to every property over the files it is anchored in: R90 bug patterns (option accepted but no longer read, optional value '
                   'tested by truthiness, same-named arguments transposed, repeated mutable container, loop-variable capture by a stored lambda) and R91 expression-level '
                   'comparison with the vetted reference tree (argument order, boolean flags, forwarded keywords, relations, constant indices, operand order, one-leaf '
                   'replacements; vf/generic.py, vf/diffrules.py, tables in vf/reference.json); rules of other properties that read the same files run in violation-only mode',
  })
man = {
    'version': 1,
    'setup_cmd': '/venv/bin/python -m compileall -q vf',
    'hooks': {
        'guard': 'FLAX_VERIF',
        'enable': 'no hooks: the checks are static and never import or execute /repo; the guard is unused',
        'baseline_off_cmd': 'cd /repo && /venv/bin/python -m pytest -ra -q -p no:cacheprovider --timeout=900 --continue-on-collection-errors',
        'source_commits': [],
        'add_only': True,
    },
    'engines': [{'name': 'vf', 'path': 'vf/', 'serves_properties': [c['property_id'] for c in checks],
                 'kind_free_text': 'pure-Python static analyser: ast source model with name/call resolution (vf/model.py), statement-level CFG with '
                                   'dominance / must-pass / exactly-once queries (vf/cfg.py), local type inference (vf/types.py), per-property rule '
                                   'modules (vf/props), evidence helpers: three-valued value flow, semantic guards, reachability under assumptions, located-anchor comparison '
                                   '(vf/evid.py), rational-function normal form with a straight-line symbolic executor (vf/ratpoly.py), exact abstract interpreter of the '
                                   'Linen filter algebra (vf/filteralg.py), alpha-normal digests and verdict reuse for alpha-equivalent code (vf/canon.py, vf/reference.py), '
                                   'self-validation by in-memory source variants and replay of the stored seeded changes / refactorings (vf/selftest.py, vf/udiff.py)'}],
    'checks': checks,
    'notes': 'All checks parse /repo/flax on every run (no caching across runs) and never execute it. Exit 0 held / 1 VIOLATION / 2 ANALYSIS-ERROR. '
             'Known findings: known_findings.json. fix: commits in /repo are listed there as status=fixed. Stored corpus: seeded/ (%d confirmed breaking changes by '
             'independent sub-agents; the ones listed in seeded/DETECTED.json are reported and guarded against regression by the thorough tier; blind results of each round '
             'in seeded/round*_blind_results.json) and benign/ (%d behaviour-preserving refactorings, none reported as VIOLATION); tools/regress.py, tools/noise.py, '
             'tools/alpha_rename.py are the regression harnesses (see DESIGN.md section 10).' % (
                 len([d for d in os.listdir(os.path.join(V, 'seeded')) if os.path.isdir(os.path.join(V, 'seeded', d))]),
                 len([d for d in os.listdir(os.path.join(V, 'benign')) if os.path.isdir(os.path.join(V, 'benign', d))])),
    'not_applicable': na,
}
json.dump(man, open(os.path.join(V, 'MANIFEST.json'), 'w'), indent=1)
print('checks:', [c['property_id'] for c in checks], 'n/a:', len(na))
