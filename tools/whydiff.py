#!/venv/bin/python
"""usage: tools/whydiff.py <benign-or-seeded name> [rule]
For each rule that is inconclusive / violated on the patched tree: the consulted units whose (strong) canonical form
differs from the reference tree, with a diff of the two canonical texts.  Shows what the normal forms do not absorb."""
import ast, difflib, json, os, shutil, subprocess, sys, tempfile
V = os.path.dirname(os.path.dirname(os.path.abspath(__file__)))
sys.path.insert(0, V)
os.environ['VF_NO_REFERENCE'] = '1'
from vf import check, reference, canon, strong
from vf.model import Repo
name = sys.argv[1]; only = sys.argv[2] if len(sys.argv) > 2 else None
d = os.path.join(V, 'benign', name)
if not os.path.isdir(d): d = os.path.join(V, 'seeded', name)
prop = name.split('-')[0]
tmp = tempfile.mkdtemp(prefix='whydiff-')
shutil.copytree('/repo/flax', os.path.join(tmp, 'flax'), ignore=shutil.ignore_patterns('__pycache__'))
subprocess.run(['patch', '-p1', '-s', '-d', tmp, '-i', os.path.join(d, 'patch.diff')], check=True)
repo = Repo(tmp); ref = Repo('/repo')
ctx, errors = check.run_rules(prop, tmp, 'quick', repo=repo, use_reference=False)
refj = reference.load()
def text(rp, u):
  m = rp._load(u[1])
  if u[0] == 'mod':
    n = canon._detached_copy(m._tree); n = canon._Canon(uniq=True).visit(n); n = strong.strengthen(n); n = canon._Canon().visit(n)
    return ast.unparse(n)
  parts = u[2].split('#')[0].split('.')
  tops = [t for t in canon._children_defs(m._tree) if t.name == parts[0]]
  tops = [t for t in reversed(tops) if canon._find(t, parts[1:]) is not None]
  if not tops: return '<missing>'
  c = canon._detached_copy(tops[0]); c = canon._Canon(uniq=True).visit(c); c = strong.strengthen(c, strong._module_names(m._tree)); c = canon._Canon().visit(c)
  node = canon._find(c, parts[1:]) if len(parts) > 1 else c
  return ast.unparse(node)
for R in ctx.rules:
  if not (R.findings or R.error): continue
  if only and R.id != only: continue
  print('=====', R.id, (R.error or '')[:150])
  units = dict(refj.get(R.id, {}).get('units', {}))
  for u in (R.consulted or ()):
    units.setdefault(reference.unit_key(u), refj['__all_units__'].get(reference.unit_key(u)))
  for k, want in sorted(units.items()):
    u = tuple(k.split('|'))
    got = reference.unit_digest(repo, u)
    if got == want: continue
    print('--- unit', k, 'ref=%s now=%s' % (want, got))
    if want is None or got is None: continue
    a = text(ref, u).splitlines(); b = text(repo, u).splitlines()
    dl = list(difflib.unified_diff(a, b, 'reference', 'patched', lineterm='', n=2))
    print('\n'.join(dl[:120])); 
    if len(dl) > 120: print('... (%d more diff lines)' % (len(dl) - 120))
shutil.rmtree(tmp, ignore_errors=True)
