#!/bin/sh
# usage: tools/confirm_refactor.sh <agent-worktree> <R1|R2|R3> <property> <name>
# Confirms a behaviour-preserving refactoring (demo passes with and without it, baseline 427 with it) and stores it under /verif/benign/<name>/.
WT=$1; S=$2; PROP=$3; NAME=$4
SRC=$WT/refactors/$S
SCR=/tmp/confirm/$NAME
OUT=/verif/benign/$NAME
[ -f "$SRC/patch.diff" ] || { echo "no patch in $SRC"; exit 2; }
rm -rf "$SCR"; mkdir -p /tmp/confirm
git -C /repo worktree add -q --detach "$SCR" HEAD || exit 2
cd "$SCR" || exit 2
mkdir -p refactors/$S && cp "$SRC"/demo.py refactors/$S/
PYTHONPATH=$SCR /venv/bin/python refactors/$S/demo.py > /tmp/confirm/$NAME.clean.log 2>&1; CLEAN=$?
if git apply --check "$SRC/patch.diff" 2>/tmp/confirm/$NAME.apply.log; then APPLY=ok; git apply "$SRC/patch.diff"; else APPLY=failed; fi
PYTHONPATH=$SCR /venv/bin/python refactors/$S/demo.py > /tmp/confirm/$NAME.patched.log 2>&1; PATCHED=$?
/venv/bin/python /tmp/seedtools/run_baseline.py "$SCR" --par > /tmp/confirm/$NAME.baseline.log 2>&1; BASE=$?
mkdir -p "$OUT"
cp "$SRC/patch.diff" "$OUT/patch.diff"; cp "$SRC/demo.py" "$OUT/demo.py"; [ -f "$SRC/notes.md" ] && cp "$SRC/notes.md" "$OUT/notes.md"
cat > "$OUT/meta.json" <<EOF
{
 "refactor": "$NAME",
 "property": "$PROP",
 "kind": "behaviour-preserving refactoring (the checks must stay silent)",
 "author": "independent sub-agent (given only the property text and a scratch worktree)",
 "confirmed_by_me": {
  "base_commit": "$(git -C /repo rev-parse --short HEAD)",
  "patch_applies": "$APPLY",
  "demo_exit_clean_tree": $CLEAN,
  "demo_exit_with_patch": $PATCHED,
  "baseline_427_with_patch_exit": $BASE,
  "baseline_summary": "$(head -1 /tmp/confirm/$NAME.baseline.log)"
 },
 "valid": $([ "$APPLY" = ok ] && [ $CLEAN -eq 0 ] && [ $PATCHED -eq 0 ] && [ $BASE -eq 0 ] && echo true || echo false)
}
EOF
cd /; git -C /repo worktree remove --force "$SCR"
echo "$NAME: apply=$APPLY clean=$CLEAN patched=$PATCHED baseline=$BASE"
